(* C19, floating conversions on the regenerated traces (reals): YCoCg is a linear bijection, the sRGB curves have the
   documented piecewise form, fix 0 (and 1 up to the accuracy of the constants), keep alpha; saturation keeps grey levels
   up to the rounding of the luminance weights; luminosity uses the documented weights (which sum to 1.03). *)
Require Import ZArith List Bool Reals Lra.
From Interval Require Import Tactic.
Import ListNotations.
From GLMV Require Import SemR Cat Expr.
From W Require Import Gen_C19.
Local Open Scope R_scope.
Definition outs (t : tree) : list expr := match t with Leaf _ o => o | _ => [] end.

(* ---- YCoCg *)
Theorem ycocg_inverse env : map (evalR env) (outs t_ycocg_roundtrip) = [env F32 0%Z 0%Z; env F32 0%Z 1%Z; env F32 0%Z 2%Z].
Proof. unfold t_ycocg_roundtrip. cbn [outs]. evR. list_field. Qed.
Theorem ycocg_inverse_rev env : map (evalR env) (outs t_ycocg_roundtrip_rev) = [env F32 0%Z 0%Z; env F32 0%Z 1%Z; env F32 0%Z 2%Z].
Proof. unfold t_ycocg_roundtrip_rev. cbn [outs]. evR. list_field. Qed.
Theorem ycocgr_float_inverse env : map (evalR env) (outs t_ycocgr_f_roundtrip) = [env F32 0%Z 0%Z; env F32 0%Z 1%Z; env F32 0%Z 2%Z].
Proof. unfold t_ycocgr_f_roundtrip. cbn [outs]. evR. list_field. Qed.
(* the forward matrix:  Y = r/4 + g/2 + b/4,  Co = r/2 - b/2,  Cg = -r/4 + g/2 - b/4 *)
Theorem ycocg_matrix env : let r := env F32 0%Z 0%Z in let g := env F32 0%Z 1%Z in let b := env F32 0%Z 2%Z in
  map (evalR env) (outs t_rgb2ycocg) = [r / 4 + g / 2 + b / 4; r / 2 - b / 2; - r / 4 + g / 2 - b / 4].
Proof. cbv zeta. unfold t_rgb2ycocg. cbn [outs]. evR. list_field. Qed.

(* ---- sRGB transfer curves, one component.  Constants are the binary32 values the source literals denote. *)
Definition T_lin : R := 3361671 / 1073741824.        (* 0.0031308f *)
Definition k_lin : R := 6773801 / 524288.            (* 12.92f *)
Definition g_enc : R := 6990395 / 16777216.          (* 0.41666f *)
Definition a_enc : R := 8849981 / 8388608.           (* 1.055f *)
Definition b_off : R := 7381975 / 134217728.         (* 0.055f *)
Definition T_srgb : R := 5429107 / 134217728.        (* 0.04045f *)
Definition k_dec : R := 10388369 / 134217728.        (* 0.0773993808f = 1/12.92 *)
Definition a_dec : R := 7951287 / 8388608.           (* 0.947867274f = 1/1.055 *)
Definition g_dec : R := 5033165 / 2097152.           (* 2.4f *)
Definition clamp01 (x : R) : R := if Rlt_dec x 0 then 0 else if Rlt_dec 1 x then 1 else x.
Definition enc_g (g x : R) : R := let c := clamp01 x in if Rlt_dec c T_lin then c * k_lin else Rpower c g * a_enc - b_off.
Definition dec_g (g s : R) : R := if Rle_dec s T_srgb then s * k_dec else Rpower ((s + b_off) * a_dec) g.
Definition L2S := enc_g g_enc.
Definition S2L := dec_g g_dec.

Ltac ev19 := cbv [map evalT evalR evalRB binR unR cmpR cstR forallb Z.leb Z.compare Z.mul Z.pow Z.pow_pos Pos.iter Pos.mul Z.opp].
Ltac tree19 :=
  intros; match goal with |- evalT _ ?t = _ => unfold t end; ev19;
  unfold L2S, S2L, enc_g, dec_g, clamp01, T_lin, k_lin, g_enc, a_enc, b_off, T_srgb, k_dec, a_dec, g_dec;
  repeat (match goal with
          | |- context [Rle_dec ?a ?b] => destruct (Rle_dec a b)
          | |- context [Rlt_dec ?a ?b] => destruct (Rlt_dec a b)
          end; ev19);
  try reflexivity; try (exfalso; lra); repeat f_equal; try lra.
Theorem l2s_tree env : evalT env t_l2s_1 = Some (true, [L2S (env F32 0%Z 0%Z)]).
Proof. tree19. Qed.
Theorem s2l_tree env : evalT env t_s2l_1 = Some (true, [S2L (env F32 0%Z 0%Z)]).
Proof. tree19. Qed.
Theorem l2s_gamma_tree env : evalT env t_l2s_1g = Some (true, [enc_g (1 / env F32 1%Z 0%Z) (env F32 0%Z 0%Z)]).
Proof. tree19. Qed.
Theorem s2l_gamma_tree env : evalT env t_s2l_1g = Some (true, [dec_g (env F32 1%Z 0%Z) (env F32 0%Z 0%Z)]).
Proof. tree19. Qed.

(* ---- end points *)
Lemma Rpower_base1 y : Rpower 1 y = 1. Proof. unfold Rpower. rewrite ln_1, Rmult_0_r. apply exp_0. Qed.
Theorem L2S_0 : L2S 0 = 0.
Proof. unfold L2S, enc_g, clamp01, T_lin, k_lin. destruct (Rlt_dec 0 0); [lra|]. destruct (Rlt_dec 1 0); [lra|]. destruct (Rlt_dec 0 (3361671 / 1073741824)); lra. Qed.
Theorem S2L_0 : S2L 0 = 0.
Proof. unfold S2L, dec_g, T_srgb, k_dec. destruct (Rle_dec 0 (5429107 / 134217728)); lra. Qed.
(* 1 is fixed up to the rounding of the constants 1.055f, 0.055f, 0.947867274f *)
Theorem L2S_1 : Rabs (L2S 1 - 1) <= 1 / 10000000.
Proof.
  unfold L2S, enc_g, clamp01, T_lin, a_enc, b_off. destruct (Rlt_dec 1 0); [lra|]. destruct (Rlt_dec 1 1); [lra|].
  destruct (Rlt_dec 1 (3361671 / 1073741824)); [lra|]. rewrite Rpower_base1. apply Rabs_le. lra.
Qed.
Theorem S2L_1 : Rabs (S2L 1 - 1) <= 1 / 1000000.
Proof.
  unfold S2L, dec_g, T_srgb, b_off, a_dec, g_dec. destruct (Rle_dec 1 (5429107 / 134217728)); [lra|]. unfold Rpower. interval with (i_prec 64).
Qed.
(* the jump at the threshold goes upwards (so the default encoding curve is monotone), and stays inside [0,1] *)
Lemma jump_up : T_lin * k_lin <= Rpower T_lin g_enc * a_enc - b_off.
Proof. unfold T_lin, k_lin, g_enc, a_enc, b_off, Rpower. interval with (i_prec 64). Qed.
Lemma jump_dec : T_srgb * k_dec <= Rpower ((T_srgb + b_off) * a_dec) g_dec.
Proof. unfold T_srgb, k_dec, g_dec, a_dec, b_off, Rpower. interval with (i_prec 64). Qed.

(* ---- monotone, range *)
Lemma clamp01_mono x y : x <= y -> clamp01 x <= clamp01 y.
Proof. intros H. unfold clamp01. destruct (Rlt_dec x 0), (Rlt_dec y 0), (Rlt_dec 1 x), (Rlt_dec 1 y); lra. Qed.
Lemma clamp01_range x : 0 <= clamp01 x <= 1.
Proof. unfold clamp01. destruct (Rlt_dec x 0), (Rlt_dec 1 x); lra. Qed.
Lemma T_lin_pos : 0 < T_lin. Proof. unfold T_lin. lra. Qed.
Theorem L2S_monotone x y : x <= y -> L2S x <= L2S y.
Proof.
  intros H. pose proof (clamp01_mono x y H) as Hc. pose proof (clamp01_range x) as Rx. pose proof (clamp01_range y) as Ry. pose proof jump_up as J. pose proof T_lin_pos as TP.
  unfold L2S, enc_g. cbv zeta. set (c1 := clamp01 x) in *. set (c2 := clamp01 y) in *.
  assert (K : 0 < k_lin) by (unfold k_lin; lra). assert (A : 0 < a_enc) by (unfold a_enc; lra). assert (G : 0 <= g_enc) by (unfold g_enc; lra).
  destruct (Rlt_dec c1 T_lin), (Rlt_dec c2 T_lin).
  - apply Rmult_le_compat_r; lra.
  - assert (Rpower T_lin g_enc <= Rpower c2 g_enc) by (apply Rle_Rpower_l; lra).
    apply Rle_trans with (T_lin * k_lin); [apply Rmult_le_compat_r; lra|]. apply Rle_trans with (Rpower T_lin g_enc * a_enc - b_off); [exact J|]. nra.
  - lra.
  - assert (Rpower c1 g_enc <= Rpower c2 g_enc) by (apply Rle_Rpower_l; lra). nra.
Qed.
Lemma clamp01_idem x : clamp01 (clamp01 x) = clamp01 x.
Proof. unfold clamp01. destruct (Rlt_dec x 0); [destruct (Rlt_dec 0 0); [lra|]; destruct (Rlt_dec 1 0); lra|]. destruct (Rlt_dec 1 x); [destruct (Rlt_dec 1 0); [lra|]; destruct (Rlt_dec 1 1); lra|]. destruct (Rlt_dec x 0); [lra|]. destruct (Rlt_dec 1 x); lra. Qed.
Lemma L2S_clamp x : L2S x = L2S (clamp01 x).
Proof. unfold L2S, enc_g. cbv zeta. now rewrite clamp01_idem. Qed.
Lemma Rabs_le_inv' x a : Rabs x <= a -> - a <= x <= a.
Proof. unfold Rabs. destruct (Rcase_abs x); lra. Qed.
Lemma L2S_1_le : L2S 1 <= 1.
Proof.
  unfold L2S, enc_g, clamp01, T_lin, a_enc, b_off. destruct (Rlt_dec 1 0); [lra|]. destruct (Rlt_dec 1 1); [lra|].
  destruct (Rlt_dec 1 (3361671 / 1073741824)); [lra|]. rewrite Rpower_base1. lra.
Qed.
Theorem L2S_range x : 0 <= L2S x <= 1.
Proof.
  pose proof (clamp01_range x) as R. rewrite L2S_clamp. split.
  - rewrite <- L2S_0. apply L2S_monotone. lra.
  - apply Rle_trans with (L2S 1); [apply L2S_monotone; lra | exact L2S_1_le].
Qed.
(* decoding: monotone on the non-negative inputs (negative inputs are outside the domain: Rpower of a negative base) *)
Theorem S2L_monotone x y : 0 <= x <= y -> S2L x <= S2L y.
Proof.
  intros H. pose proof jump_dec as J. unfold S2L, dec_g.
  assert (K : 0 < k_dec) by (unfold k_dec; lra). assert (A : 0 < a_dec) by (unfold a_dec; lra). assert (B : 0 < b_off) by (unfold b_off; lra).
  assert (G : 0 <= g_dec) by (unfold g_dec; lra). assert (TS : 0 < T_srgb) by (unfold T_srgb; lra).
  destruct (Rle_dec x T_srgb), (Rle_dec y T_srgb).
  - apply Rmult_le_compat_r; lra.
  - assert (Rpower ((T_srgb + b_off) * a_dec) g_dec <= Rpower ((y + b_off) * a_dec) g_dec) by (apply Rle_Rpower_l; [lra|]; split; nra).
    apply Rle_trans with (T_srgb * k_dec); [apply Rmult_le_compat_r; lra|]. lra.
  - lra.
  - apply Rle_Rpower_l; [lra|]. split; nra.
Qed.
Theorem S2L_range x : 0 <= x <= 1 -> 0 <= S2L x <= 1 + 1 / 1000000.
Proof.
  intros H. split.
  - rewrite <- S2L_0. apply S2L_monotone. lra.
  - apply Rle_trans with (S2L 1); [apply S2L_monotone; lra|]. pose proof S2L_1 as H1. apply Rabs_le_inv' in H1. lra.
Qed.

(* ---- the two curves invert each other to within 1e-5 on [0,1] *)
Lemma inv_pow x : T_lin <= x <= 1 -> Rabs (Rpower ((Rpower x g_enc * a_enc - b_off + b_off) * a_dec) g_dec - x) <= 1 / 100000.
Proof. unfold T_lin, g_enc, a_enc, b_off, a_dec, g_dec, Rpower. intros H. interval with (i_bisect x, i_taylor x, i_degree 5, i_prec 60). Qed.
Lemma enc_above_threshold x : T_lin <= x <= 1 -> T_srgb < Rpower x g_enc * a_enc - b_off.
Proof.
  intros H. assert (Rpower T_lin g_enc <= Rpower x g_enc) by (apply Rle_Rpower_l; [unfold g_enc; lra | pose proof T_lin_pos; lra]).
  assert (T_srgb < Rpower T_lin g_enc * a_enc - b_off) by (unfold T_srgb, T_lin, g_enc, a_enc, b_off, Rpower; interval with (i_prec 64)).
  assert (0 < a_enc) by (unfold a_enc; lra). nra.
Qed.
Theorem S2L_L2S_inverse x : 0 <= x <= 1 -> Rabs (S2L (L2S x) - x) <= 1 / 100000.
Proof.
  intros H. unfold L2S, enc_g. cbv zeta. unfold clamp01. destruct (Rlt_dec x 0); [lra|]. destruct (Rlt_dec 1 x); [lra|].
  destruct (Rlt_dec x T_lin) as [Hl|Hl].
  - unfold S2L, dec_g. destruct (Rle_dec (x * k_lin) T_srgb) as [Hs|Hs].
    + unfold k_lin, k_dec. apply Rabs_le. unfold T_lin in Hl. split; nra.
    + exfalso. apply Hs. unfold k_lin, T_srgb. unfold T_lin in Hl. nra.
  - pose proof (enc_above_threshold x ltac:(lra)) as Ha. unfold S2L, dec_g.
    destruct (Rle_dec (Rpower x g_enc * a_enc - b_off) T_srgb); [lra|]. apply inv_pow. lra.
Qed.

(* ---- explicit gamma: the constants are those of gamma 2.4; for other gammas the curve jumps DOWN at the threshold and
   leaves [0,1] (KNOWN FINDING).  Witness: gamma = 1, x = 0.004 encodes to a negative value. *)
Theorem general_gamma_refuted : exists g x, 1 <= g <= 3 /\ 0 <= x <= 1 /\ enc_g (1 / g) x < 0.
Proof.
  exists 1, (1 / 250). split; [lra|]. split; [lra|]. unfold enc_g, clamp01, T_lin, a_enc, b_off. destruct (Rlt_dec (1 / 250) 0); [lra|]. destruct (Rlt_dec 1 (1 / 250)); [lra|].
  destruct (Rlt_dec (1 / 250) (3361671 / 1073741824)); [lra|]. replace (1 / 1) with 1 by lra. rewrite Rpower_1 by lra. lra.
Qed.

(* ---- saturation / luminosity.  w_r, w_g, w_b: the binary32 values of the documented luminance weights 0.2126, 0.7152, 0.0722 *)
Definition w_r : R := 891709 / 4194304.
Definition w_g : R := 11999065 / 16777216.
Definition w_b : R := 1211315 / 16777216.
Theorem saturation_formula env : let s := env F32 1%Z 0%Z in let r := env F32 0%Z 0%Z in let g := env F32 0%Z 1%Z in let b := env F32 0%Z 2%Z in
  let l := (1 - s) * (w_r * r + w_g * g + w_b * b) in
  map (evalR env) (outs t_saturation_3) = [l + s * r; l + s * g; l + s * b].
Proof. cbv zeta. unfold t_saturation_3, w_r, w_g, w_b. cbn [outs]. evR. list_field. Qed.
Lemma weights_sum : Rabs (w_r + w_g + w_b - 1) <= 1 / 10000000.
Proof. unfold w_r, w_g, w_b. apply Rabs_le. lra. Qed.
(* a grey level c is kept: the result is c + c (1 - s) (w_r + w_g + w_b - 1), i.e. c up to the rounding of the weights *)
Theorem saturation_keeps_grey env c : env F32 0%Z 0%Z = c -> env F32 0%Z 1%Z = c -> env F32 0%Z 2%Z = c ->
  let s := env F32 1%Z 0%Z in let d := c * (1 - s) * (w_r + w_g + w_b - 1) in map (evalR env) (outs t_saturation_3) = [c + d; c + d; c + d].
Proof. intros H0 H1 H2. cbv zeta. rewrite saturation_formula. cbv zeta. rewrite H0, H1, H2. list_field. Qed.
(* alpha / the fourth component of the 4-vector overload is untouched; rgb as the 3-vector overload *)
Theorem saturation4_alpha env : nth 3 (map (evalR env) (outs t_saturation_4)) 0 = env F32 0%Z 3%Z.
Proof. unfold t_saturation_4. cbn [outs map nth]. evR. field. Qed.
(* luminosity: the documented ratios 0.33, 0.59, 0.11 (as binary32 values) *)
Theorem luminosity_formula env : map (evalR env) (outs t_luminosity_3) = [env F32 0%Z 0%Z * (11072963 / 33554432) + env F32 0%Z 1%Z * (9898557 / 16777216) + env F32 0%Z 2%Z * (7381975 / 67108864)].
Proof. unfold t_luminosity_3. cbn [outs]. evR. list_field. Qed.
(* ... which sum to 1.03: a grey level c has luminosity 1.03 c, not c (KNOWN FINDING) *)
Theorem luminosity_grey_refuted : exists env, env F32 0%Z 0%Z = 1 /\ env F32 0%Z 1%Z = 1 /\ env F32 0%Z 2%Z = 1 /\ nth 0 (map (evalR env) (outs t_luminosity_3)) 0 > 1 + 1 / 40.
Proof. exists (fun _ _ _ => 1). repeat split. rewrite luminosity_formula. cbn [nth]. lra. Qed.

(* ---- alpha of the sRGB conversions: in every leaf of the 4-component trees the fourth output is the fourth input *)
Fixpoint all_leaves (p : list expr -> bool) (t : tree) : bool :=
  match t with Leaf _ o => p o | Br _ a b => all_leaves p a && all_leaves p b | Abort _ => false end.
Definition alpha_kept (t : tree) : bool := all_leaves (fun o => match nth_error o 3 with Some e => expr_eqb e (V F32 0 3) | None => false end) t.
Theorem srgb_alpha_untouched : alpha_kept t_l2s_4 && alpha_kept t_s2l_4 && alpha_kept t_l2s_4g && alpha_kept t_s2l_4g = true.
Proof. vm_compute. reflexivity. Qed.
