(* C05, 16-bit element types, patterns 16384..24575: bitCount, findLSB, findMSB, bitfieldReverse for uint16 and int16 *)
Require Import ZArith List Bool Lia.
Import ListNotations.
From GLMM Require Import Half IntFn.
From W Require Import A_C05_defs.
Local Open Scope Z_scope.
Lemma unary_u16 : forallb (unary_ok false 16) (shard16 false 2) = true. Proof. vm_cast_no_check (eq_refl true). Qed.
Lemma unary_i16 : forallb (unary_ok true 16) (shard16 true 2) = true. Proof. vm_cast_no_check (eq_refl true). Qed.
