(* C05, bitCount for EVERY value of the 8-, 16-, 32- and 64-bit element types: the ladder of func_integer.inl
   (v & Mask) + ((v >> Shift) & Mask) keeps the invariant PopLadder.V (every field holds the bit count of the same field of the argument),
   so the result is the number of one bits of the argument's bit pattern. *)
Require Import ZArith List Bool Lia.
Import ListNotations.
From GLMV Require Import PopLadder.
From GLMM Require Import IntFn.
Local Open Scope Z_scope.

Lemma cnt_step_V w W n m s minw x : 0 <= x -> (0 < W)%nat -> 0 <= w -> (w <? minw) = false -> s = Z.of_nat W -> umod w m = mask s n ->
  Z.of_nat (W + W) * Z.of_nat n <= w -> cnt_step w (V W (2 * n) x) (m, s, minw) = V (W + W) n x.
Proof.
  intros Hx HW Hw Hmin -> Hm Hb. unfold cnt_step. rewrite Hmin, Hm. unfold shr. fold (step (Z.of_nat W) (mask (Z.of_nat W) n) (V W (2 * n) x)).
  rewrite V_step by assumption. rewrite umod_mod by exact Hw. apply Z.mod_small. pose proof (V_bound (W + W) n x) as B. split; [lia|].
  apply Z.lt_le_trans with (1 := proj2 B). apply Z.pow_le_mono_r; lia.
Qed.
Lemma cnt_skip w x m s minw : (w <? minw) = true -> cnt_step w x (m, s, minw) = x.
Proof. intros H. unfold cnt_step. now rewrite H. Qed.
Definition count_u (w x : Z) : Z := fold_left (cnt_step w) ladder x.
Ltac stepV W n := rewrite (cnt_step_V _ W n) by (first [assumption | lia | reflexivity | (vm_compute; reflexivity) | (vm_compute; discriminate)]).
Lemma count64 x : 0 <= x < 2 ^ 64 -> count_u 64 x = pc 64 x.
Proof.
  intros Hx. assert (H0 : 0 <= x) by lia. unfold count_u, ladder. cbn [fold_left].
  replace x with (V 1 (2 * 32) x) at 1 by (rewrite V_one; apply Z.mod_small; exact Hx).
  stepV 1%nat 32%nat. change (V (1 + 1) 32 x) with (V 2 (2 * 16) x).
  stepV 2%nat 16%nat. change (V (2 + 2) 16 x) with (V 4 (2 * 8) x).
  stepV 4%nat 8%nat. change (V (4 + 4) 8 x) with (V 8 (2 * 4) x).
  stepV 8%nat 4%nat. change (V (8 + 8) 4 x) with (V 16 (2 * 2) x).
  stepV 16%nat 2%nat. change (V (16 + 16) 2 x) with (V 32 (2 * 1) x).
  stepV 32%nat 1%nat. apply V_top.
Qed.
Lemma count32 x : 0 <= x < 2 ^ 32 -> count_u 32 x = pc 32 x.
Proof.
  intros Hx. assert (H0 : 0 <= x) by lia. unfold count_u, ladder. cbn [fold_left].
  replace x with (V 1 (2 * 16) x) at 1 by (rewrite V_one; apply Z.mod_small; exact Hx).
  stepV 1%nat 16%nat. change (V (1 + 1) 16 x) with (V 2 (2 * 8) x).
  stepV 2%nat 8%nat. change (V (2 + 2) 8 x) with (V 4 (2 * 4) x).
  stepV 4%nat 4%nat. change (V (4 + 4) 4 x) with (V 8 (2 * 2) x).
  stepV 8%nat 2%nat. change (V (8 + 8) 2 x) with (V 16 (2 * 1) x).
  stepV 16%nat 1%nat. rewrite cnt_skip by reflexivity. apply V_top.
Qed.
Lemma count16 x : 0 <= x < 2 ^ 16 -> count_u 16 x = pc 16 x.
Proof.
  intros Hx. assert (H0 : 0 <= x) by lia. unfold count_u, ladder. cbn [fold_left].
  replace x with (V 1 (2 * 8) x) at 1 by (rewrite V_one; apply Z.mod_small; exact Hx).
  stepV 1%nat 8%nat. change (V (1 + 1) 8 x) with (V 2 (2 * 4) x).
  stepV 2%nat 4%nat. change (V (2 + 2) 4 x) with (V 4 (2 * 2) x).
  stepV 4%nat 2%nat. change (V (4 + 4) 2 x) with (V 8 (2 * 1) x).
  stepV 8%nat 1%nat. rewrite !cnt_skip by reflexivity. apply V_top.
Qed.
Lemma count8 x : 0 <= x < 2 ^ 8 -> count_u 8 x = pc 8 x.
Proof.
  intros Hx. assert (H0 : 0 <= x) by lia. unfold count_u, ladder. cbn [fold_left].
  replace x with (V 1 (2 * 4) x) at 1 by (rewrite V_one; apply Z.mod_small; exact Hx).
  stepV 1%nat 4%nat. change (V (1 + 1) 4 x) with (V 2 (2 * 2) x).
  stepV 2%nat 2%nat. change (V (2 + 2) 2 x) with (V 4 (2 * 1) x).
  stepV 4%nat 1%nat. rewrite !cnt_skip by reflexivity. apply V_top.
Qed.
(* pc is the specification's count (IntFn.popcount: one per set bit among the low w bits) *)
Lemma fold_pc n y : fold_left (fun acc i => acc + (if Z.testbit y i then 1 else 0)) (bits_upto n) 0 = pc n y.
Proof.
  induction n as [|k IH]; [reflexivity|]. cbn [bits_upto]. rewrite fold_left_app, IH. cbn [fold_left].
  replace (S k) with (k + 1)%nat by lia. rewrite pc_split, pc_mod. cbn [pc]. f_equal.
  rewrite <- Z.testbit_spec' by lia. destruct (Z.testbit y (Z.of_nat k)); reflexivity.
Qed.
Definition width (w : Z) : Prop := w = 8 \/ w = 16 \/ w = 32 \/ w = 64.
Theorem bitCount_all sg w x : width w -> bitCount sg w x = popcount w x.
Proof.
  intros Hw. unfold bitCount, popcount. rewrite fold_pc. fold (count_u w (umod w x)).
  assert (Hu : 0 <= umod w x < 2 ^ w) by (rewrite umod_mod by (destruct Hw as [-> | [-> | [-> | ->]]]; lia); apply Z.mod_pos_bound; destruct Hw as [-> | [-> | [-> | ->]]]; reflexivity).
  assert (E : count_u w (umod w x) = pc (Z.to_nat w) (umod w x)) by (destruct Hw as [-> | [-> | [-> | ->]]]; [apply count8 | apply count16 | apply count32 | apply count64]; exact Hu).
  rewrite E. pose proof (pc_bound (Z.to_nat w) (umod w x)) as B. apply norm_id; [lia|]. unfold in_T. apply andb_true_iff. split; [apply Z.leb_le | apply Z.ltb_lt]; destruct Hw as [-> | [-> | [-> | ->]]]; cbn in *; lia.
Qed.

(* ---- findLSB: Value == 0 ? -1 : bitCount(~Value & (Value - 1)) *)
Lemma width_pos w : width w -> 0 < w. Proof. intros [-> | [-> | [-> | ->]]]; lia. Qed.
Lemma umod_norm sg w z : 0 < w -> umod w (norm sg w z) = umod w z.
Proof.
  intros Hw. rewrite !umod_mod by lia. rewrite norm_mod by lia. cbv zeta. destruct (sg && (2 ^ (w - 1) <=? z mod 2 ^ w)).
  - rewrite <- (Z.mod_add _ 1) by (apply Z.pow_nonzero; lia). replace (z mod 2 ^ w - 2 ^ w + 1 * 2 ^ w) with (z mod 2 ^ w) by lia. apply Z.mod_mod. apply Z.pow_nonzero; lia.
  - apply Z.mod_mod. apply Z.pow_nonzero; lia.
Qed.
Lemma umod_land w a b : umod w (Z.land a b) = Z.land (umod w a) (umod w b).
Proof. unfold umod. rewrite <- !Z.land_assoc. f_equal. rewrite (Z.land_comm (Z.ones w)), <- Z.land_assoc, Z.land_diag. reflexivity. Qed.
Lemma pc_umod w z : 0 <= w -> pc (Z.to_nat w) (umod w z) = pc (Z.to_nat w) z.
Proof. intros Hw. rewrite umod_mod by exact Hw. pose proof (pc_mod (Z.to_nat w) z) as H. rewrite Z2Nat.id in H by exact Hw. exact H. Qed.
Lemma findLSB_ctz sg w x : width w -> x <> 0 -> findLSB sg w x = ctz (Z.to_nat w) x.
Proof.
  intros Hw Hx. pose proof (width_pos w Hw) as Wp. unfold findLSB. replace (x =? 0) with false by (symmetry; now apply Z.eqb_neq).
  rewrite bitCount_all by exact Hw. unfold popcount. rewrite fold_pc.
  unfold band, bnot. rewrite umod_norm, umod_land, !umod_norm, <- umod_land by exact Wp. rewrite pc_umod by lia. apply pc_low_mask.
Qed.
Theorem findLSB_all sg w x : width w -> in_T sg w x = true ->
  (x = 0 -> findLSB sg w x = -1) /\
  (x <> 0 -> let r := findLSB sg w x in 0 <= r < w /\ Z.testbit (umod w x) r = true /\ forall i, 0 <= i < r -> Z.testbit (umod w x) i = false).
Proof.
  intros Hw HT. pose proof (width_pos w Hw) as Wp. split; [intros ->; reflexivity|]. intros Hx. cbv zeta. rewrite findLSB_ctz by assumption.
  destruct (ctz_spec (Z.to_nat w) x) as (B & Lo & Hi). rewrite Z2Nat.id in B, Hi by lia. set (r := ctz (Z.to_nat w) x) in *.
  assert (Hr : r < w).
  { destruct (Z.eq_dec r w) as [E|E]; [|lia]. exfalso. apply Hx.
    assert (U : umod w x = 0).
    { rewrite umod_mod by lia. apply Z.bits_inj'. intros i Hi'. rewrite Z.bits_0. destruct (Z.ltb_spec i w); [rewrite Z.mod_pow2_bits_low by lia; apply Lo; lia | apply Z.mod_pow2_bits_high; lia]. }
    rewrite <- (norm_id sg w x Wp HT). rewrite norm_mod by lia. rewrite umod_mod in U by lia. cbv zeta. rewrite U.
    replace (2 ^ (w - 1) <=? 0) with false by (symmetry; apply Z.leb_gt, Z.pow_pos_nonneg; lia). now rewrite andb_false_r. }
  split; [lia|]. rewrite !umod_mod by lia. split; [rewrite Z.mod_pow2_bits_low by lia; apply Hi; lia|].
  intros i Hi'. rewrite Z.mod_pow2_bits_low by lia. apply Lo. lia.
Qed.
