(* C05, bitfieldInsert for EVERY base, insert, offset and field width of the 8-, 16-, 32- and 64-bit element types, signed and unsigned:
   bit i of the result is bit i - offset of Insert inside the field [offset, offset + bits) and bit i of Base outside it. *)
Require Import ZArith List Bool Lia.
Import ListNotations.
From GLMM Require Import IntFn.
From W Require Import P_C05_count.
Local Open Scope Z_scope.

Lemma umod_lor w a b : umod w (Z.lor a b) = Z.lor (umod w a) (umod w b).
Proof. unfold umod. apply Z.land_lor_distr_l. Qed.
Lemma tb_umod w z i : 0 <= i < w -> Z.testbit (umod w z) i = Z.testbit z i.
Proof. intros H. rewrite umod_mod by lia. apply Z.mod_pow2_bits_low. lia. Qed.
Lemma tb_norm sg w z i : 0 <= i < w -> Z.testbit (norm sg w z) i = Z.testbit z i.
Proof. intros H. rewrite <- (tb_umod w (norm sg w z) i H), umod_norm by lia. apply tb_umod, H. Qed.
Lemma tb_mask_T sg w bits j : 0 < w -> 0 <= bits -> 0 <= j < w -> Z.testbit (umod w (mask_T sg w bits)) j = (j <? bits).
Proof.
  intros Hw Hb Hj. unfold mask_T. destruct (Z.leb_spec w bits) as [H|H]; rewrite umod_norm, tb_umod by lia.
  - rewrite Z.bits_m1 by lia. symmetry. apply Z.ltb_lt. lia.
  - replace (2 ^ bits - 1) with (Z.ones bits) by (rewrite Z.ones_equiv; lia). destruct (Z.ltb_spec j bits); [apply Z.ones_spec_low | apply Z.ones_spec_high]; lia.
Qed.
Theorem bitfieldInsert_all sg w base ins off bits i : width w -> 0 <= off -> 0 <= bits -> off + bits <= w -> 0 <= i < w ->
  Z.testbit (umod w (bitfieldInsert sg w base ins off bits)) i = if (off <=? i) && (i <? off + bits) then Z.testbit ins (i - off) else Z.testbit base i.
Proof.
  intros Hw Ho Hb Hs Hi. pose proof (width_pos w Hw) as Wp. unfold bitfieldInsert. cbv zeta. unfold bor, band, bnot, shl.
  rewrite !umod_norm, umod_lor, !umod_norm, !umod_land, !umod_norm by exact Wp. rewrite Z.lor_spec, !Z.land_spec, !tb_umod by lia.
  rewrite Z.lnot_spec by lia. rewrite tb_norm by lia. rewrite !Z.mul_pow2_bits by lia.
  destruct (Z.leb_spec off i) as [H|H]; cbn [andb].
  - rewrite <- (tb_umod w (mask_T false w bits) (i - off)) by lia. rewrite tb_mask_T by lia. rewrite !tb_umod by lia.
    replace (i - off <? bits) with (i <? off + bits) by (destruct (Z.ltb_spec i (off + bits)), (Z.ltb_spec (i - off) bits); try reflexivity; lia).
    destruct (i <? off + bits); cbn [negb andb orb]; [now rewrite andb_false_r, andb_true_r | now rewrite andb_true_r, andb_false_r, orb_false_r].
  - rewrite !(Z.testbit_neg_r _ (i - off)) by lia. cbn [negb]. now rewrite andb_true_r, andb_false_r, orb_false_r.
Qed.
