(* C05 definitions for the exhaustive 8/16-bit theorems -- 8- and 16-bit element types: every value (and every (offset,bits) pair for 8 bits) by exhaustive evaluation.
   GLSL definitions: popcount / lowest_set / findMSB_spec / reverse_spec / extract_spec / insert_spec of GLMM.IntFn. *)
Require Import ZArith List Bool Lia.
Import ListNotations.
From GLMM Require Import Half IntFn.
Local Open Scope Z_scope.

Definition vals (sg : bool) (w : Z) : list Z := map (norm sg w) (zrange (Z.to_nat (2 ^ w)) 0).
(* bitCount, findLSB, findMSB (signed rule included) and bitfieldReverse for every value *)
Definition unary_ok (sg : bool) (w x : Z) : bool :=
  (bitCount sg w x =? popcount w x) && (findLSB sg w x =? lowest_set w x) &&
  (findMSB sg w x =? findMSB_spec sg w x) && (bitfieldReverse sg w x =? reverse_spec sg w x).
(* all (offset, bits) with 0 <= offset, 0 <= bits, offset + bits <= w *)
Definition fields (w : Z) : list (Z * Z) := flat_map (fun o => map (fun b => (o, b)) (zrange (Z.to_nat (w - o + 1)) 0)) (zrange (Z.to_nat w) 0).
(* bitfieldExtract: unsigned: every value and field; signed: every value and field whose top bit is clear (no sign extension needed) *)
Definition extract_ok (sg : bool) (w x : Z) : bool :=
  forallb (fun ob => let '(o, b) := ob in
    let spec := extract_spec sg w x o b in
    if sg && (spec <? 0) then true else bitfieldExtract sg w x o b =? spec) (fields w).
(* bitfieldInsert: every base, a spread of insert values, every field *)
Definition ins_vals : list Z := [0; 1; 2; 85; 170; 255; 127; 128; 15; 240; 51; 204].
Definition insert_ok (sg : bool) (w x : Z) : bool :=
  forallb (fun y => forallb (fun ob => let '(o, b) := ob in bitfieldInsert sg w x (norm sg w y) o b =? insert_spec sg w x (norm sg w y) o b) (fields w)) ins_vals.
(* a shard of the 16-bit patterns: 8192 consecutive patterns starting at 8192*k, read as unsigned and as signed values *)
Definition shard16 (sg : bool) (k : Z) : list Z := map (norm sg 16) (zrange (Z.to_nat 8192) (8192 * k)).
