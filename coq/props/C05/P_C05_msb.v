(* C05, findMSB for EVERY value of the 8-, 16-, 32- and 64-bit element types.  The smear ladder x |= x >> 1, 2, 4, ... distributes over
   bitwise OR (OrHom), so it is determined by its values on single bits (2^i goes to 2^(i+1) - 1, checked by computation); the OR of those runs is
   the run of ones up to the highest set bit; bitCount of the complement (P_C05_count) then gives  w - 1 - (w - (msb + 1)) = msb.
   Signed arguments are first complemented when negative (x ^ (x >> (w-1))), so the result is the highest 0 bit of a negative value. *)
Require Import ZArith List Bool Lia.
Import ListNotations.
From GLMV Require Import OrHom PopLadder.
From GLMM Require Import IntFn.
From W Require Import P_C05_count.
Local Open Scope Z_scope.

Lemma orbits_ones g n u : (forall i, (i < n)%nat -> g (2 ^ Z.of_nat i) = Z.ones (Z.of_nat i + 1)) -> 0 <= u < 2 ^ Z.of_nat n ->
  orbits g n u = if u =? 0 then 0 else Z.ones (Z.log2 u + 1).
Proof.
  revert u. induction n as [|k IH]; intros u Hg Hu.
  - cbn in Hu. assert (u = 0) by lia. subst. reflexivity.
  - cbn [orbits]. rewrite <- (orbits_mod g k u) by lia.
    assert (Hm : 0 <= u mod 2 ^ Z.of_nat k < 2 ^ Z.of_nat k) by (apply Z.mod_pos_bound, Z.pow_pos_nonneg; lia).
    rewrite IH by (try exact Hm; intros i Hi; apply Hg; lia).
    pose proof (split_top k u Hu) as Sp.
    destruct (Z.testbit u (Z.of_nat k)) eqn:Tb.
    + rewrite Hg by lia.
      assert (Hge : 2 ^ Z.of_nat k <= u).
      { destruct (Z_lt_le_dec u (2 ^ Z.of_nat k)) as [Hlt|Hle]; [|exact Hle]. exfalso. apply Z.testbit_true in Tb; [|lia]. rewrite Z.div_small in Tb by lia. cbn in Tb. discriminate. }
      assert (L : Z.log2 u = Z.of_nat k) by (apply Z.log2_unique; [lia|]; rewrite Nat2Z.inj_succ in Hu; lia).
      replace (u =? 0) with false by (symmetry; apply Z.eqb_neq; pose proof (Z.pow_pos_nonneg 2 (Z.of_nat k)); lia). rewrite L.
      destruct (Z.eqb_spec (u mod 2 ^ Z.of_nat k) 0) as [E|E]; [apply Z.lor_0_l|].
      apply Z.lor_ones_low.
      * rewrite Z.ones_equiv. pose proof (Z.pow_pos_nonneg 2 (Z.log2 (u mod 2 ^ Z.of_nat k) + 1)). pose proof (Z.log2_nonneg (u mod 2 ^ Z.of_nat k)). lia.
      * assert (Z.log2 (u mod 2 ^ Z.of_nat k) < Z.of_nat k) by (apply Z.log2_lt_pow2; lia).
        destruct (Z.eq_dec (Z.ones (Z.log2 (u mod 2 ^ Z.of_nat k) + 1)) 0) as [->|Hz]; [cbn; lia|].
        apply Z.log2_lt_pow2; [rewrite Z.ones_equiv in *; pose proof (Z.pow_pos_nonneg 2 (Z.log2 (u mod 2 ^ Z.of_nat k) + 1)); pose proof (Z.log2_nonneg (u mod 2 ^ Z.of_nat k)); lia|].
        rewrite Z.ones_equiv. pose proof (Z.log2_nonneg (u mod 2 ^ Z.of_nat k)).
        assert (2 ^ (Z.log2 (u mod 2 ^ Z.of_nat k) + 1) <= 2 ^ (Z.of_nat k + 1)) by (apply Z.pow_le_mono_r; lia). lia.
    + rewrite Z.lor_0_r in Sp |- *. rewrite <- Sp. reflexivity.
Qed.

Definition msteps : list (Z * Z) := [(1, 8); (2, 8); (4, 8); (8, 16); (16, 32); (32, 64)].
Definition smear_u (w y : Z) : Z := fold_left (msb_step false w) msteps y.
Lemma hom_msb_step w st : 0 <= w -> 0 <= fst st -> hom (fun y => msb_step false w y st).
Proof.
  intros Hw Hs. destruct st as [s minw]. cbn [fst] in Hs. unfold msb_step. destruct (w <? minw); [apply hom_id|].
  unfold bor, shr. change (norm false w) with (trunc w).
  apply (hom_comp (fun y => Z.lor y (Z.shiftr y s)) (trunc w)); [|apply hom_trunc, Hw].
  apply (hom_lor (fun y => y) (fun y => Z.shiftr y s)); [apply hom_id | apply hom_shiftr, Hs].
Qed.
Lemma hom_msb_ladder w l : 0 <= w -> forallb (fun st => 0 <=? fst st) l = true -> hom (fun y => fold_left (msb_step false w) l y).
Proof.
  intros Hw. induction l as [|st l IH]; cbn [fold_left forallb]; intros H; [apply hom_id|]. apply andb_prop in H as [H1 H2].
  apply (hom_comp (fun y => msb_step false w y st) (fun y => fold_left (msb_step false w) l y)); [apply hom_msb_step; [exact Hw|apply Z.leb_le, H1]|apply IH, H2].
Qed.
Definition smear_bits_ok (w : nat) : bool := all_below w (fun i => smear_u (Z.of_nat w) (2 ^ Z.of_nat i) =? Z.ones (Z.of_nat i + 1)).
Lemma smear_bits_8 : smear_bits_ok 8 = true. Proof. vm_compute. reflexivity. Qed.
Lemma smear_bits_16 : smear_bits_ok 16 = true. Proof. vm_compute. reflexivity. Qed.
Lemma smear_bits_32 : smear_bits_ok 32 = true. Proof. vm_compute. reflexivity. Qed.
Lemma smear_bits_64 : smear_bits_ok 64 = true. Proof. vm_compute. reflexivity. Qed.
Theorem smear_all (w : nat) u : smear_bits_ok w = true -> 0 <= u < 2 ^ Z.of_nat w -> smear_u (Z.of_nat w) u = if u =? 0 then 0 else Z.ones (Z.log2 u + 1).
Proof.
  intros Hc Hu. assert (H : hom (smear_u (Z.of_nat w))) by (apply hom_msb_ladder; [lia|reflexivity]).
  rewrite (hom_orbits _ w u H Hu). apply orbits_ones; [|exact Hu]. intros i Hi. apply Z.eqb_eq. apply (all_below_spec w _ Hc i Hi).
Qed.
(* on non-negative values below 2^(w-1) the signed ladder (arithmetic shifts, conversion back to T) is the unsigned one *)
Lemma lor_lt_pow2 a b k : 0 <= k -> 0 <= a < 2 ^ k -> 0 <= b < 2 ^ k -> 0 <= Z.lor a b < 2 ^ k.
Proof.
  intros Hk Ha Hb. split; [apply Z.lor_nonneg; lia|]. destruct (Z.eq_dec (Z.lor a b) 0) as [->|Hz]; [apply Z.pow_pos_nonneg; lia|].
  assert (Kp : 0 < k) by (destruct (Z.eq_dec k 0) as [->|]; [exfalso; change (2 ^ 0) with 1 in *; assert (a = 0) by lia; assert (b = 0) by lia; subst; apply Hz; reflexivity | lia]).
  apply Z.log2_lt_pow2; [pose proof (Z.lor_nonneg a b); lia|]. rewrite Z.log2_lor by lia.
  apply Z.max_lub_lt; [destruct (Z.eq_dec a 0) as [->|]; [cbn; lia | apply Z.log2_lt_pow2; lia] | destruct (Z.eq_dec b 0) as [->|]; [cbn; lia | apply Z.log2_lt_pow2; lia]].
Qed.
Lemma msb_step_small sg w y st : 0 < w -> 0 <= fst st -> 0 <= y < 2 ^ (w - 1) ->
  msb_step sg w y st = msb_step false w y st /\ 0 <= msb_step false w y st < 2 ^ (w - 1).
Proof.
  intros Hw Hs Hy. destruct st as [s minw]. cbn [fst] in Hs. unfold msb_step. destruct (w <? minw); [split; [reflexivity|exact Hy]|].
  unfold bor, shr. assert (R : 0 <= Z.lor y (Z.shiftr y s) < 2 ^ (w - 1)).
  { apply lor_lt_pow2; [lia|exact Hy|]. rewrite Z.shiftr_div_pow2 by lia. pose proof (Z.pow_pos_nonneg 2 s ltac:(lia) Hs). split; [apply Z.div_pos; lia|].
    apply Z.le_lt_trans with y; [apply Z.div_le_upper_bound; nia | lia]. }
  assert (P : 2 ^ w = 2 * 2 ^ (w - 1)) by (replace w with (Z.succ (w - 1)) at 1 by lia; apply Z.pow_succ_r; lia).
  rewrite !norm_id; [split; [reflexivity|exact R] | lia | | lia | ]; unfold in_T; [|destruct sg]; apply andb_true_iff; split; try apply Z.leb_le; try apply Z.ltb_lt; lia.
Qed.
Lemma msb_ladder_small sg w l : 0 < w -> forallb (fun st => 0 <=? fst st) l = true -> forall y, 0 <= y < 2 ^ (w - 1) ->
  fold_left (msb_step sg w) l y = fold_left (msb_step false w) l y.
Proof.
  intros Hw. induction l as [|st l IH]; cbn [fold_left forallb]; intros H y Hy; [reflexivity|]. apply andb_prop in H as [H1 H2]. apply Z.leb_le in H1.
  destruct (msb_step_small sg w y st Hw H1 Hy) as [E R]. rewrite E. apply IH; assumption.
Qed.

Lemma smear_ok_width w : width w -> smear_bits_ok (Z.to_nat w) = true.
Proof. intros [-> | [-> | [-> | ->]]]; [exact smear_bits_8 | exact smear_bits_16 | exact smear_bits_32 | exact smear_bits_64]. Qed.
(* w - 1 - bitCount(~y) for a smeared value y *)
Lemma count_of_complement sg w y : width w -> bitCount sg w (bnot sg w y) = w - pc (Z.to_nat w) y.
Proof.
  intros Hw. pose proof (width_pos w Hw) as Wp. rewrite bitCount_all by exact Hw. unfold popcount. rewrite fold_pc. unfold bnot.
  rewrite umod_norm by exact Wp. rewrite pc_umod by lia. rewrite pc_lnot. rewrite Z2Nat.id by lia. reflexivity.
Qed.
Theorem findMSB_all sg w x : width w -> in_T sg w x = true ->
  let u := if sg && (x <? 0) then Z.lnot x else x in
  0 <= u < 2 ^ w /\ findMSB sg w x = if u =? 0 then -1 else Z.log2 u.
Proof.
  intros Hw HT. pose proof (width_pos w Hw) as Wp. cbv zeta.
  assert (P : 2 ^ w = 2 * 2 ^ (w - 1)) by (replace w with (Z.succ (w - 1)) at 1 by lia; apply Z.pow_succ_r; lia).
  assert (Q : 0 < 2 ^ (w - 1)) by (apply Z.pow_pos_nonneg; lia).
  set (u := if sg && (x <? 0) then Z.lnot x else x).
  (* the value entering the ladder is u, and the ladder is the unsigned one *)
  assert (K : 0 <= u < 2 ^ w /\ fold_left (msb_step sg w) msteps (if sg then norm sg w (Z.lxor x (shr x (w - 1))) else x) = smear_u w u).
  { unfold u. destruct sg; cbn [andb].
    - unfold in_T in HT. apply andb_true_iff in HT as [H1 H2]. apply Z.leb_le in H1. apply Z.ltb_lt in H2.
      assert (Hs : shr x (w - 1) = if x <? 0 then -1 else 0).
      { unfold shr. rewrite Z.shiftr_div_pow2 by lia. destruct (Z.ltb_spec x 0); [symmetry; apply Z.div_unique with (x + 2 ^ (w - 1)); lia | apply Z.div_small; lia]. }
      rewrite Hs. assert (Hu : 0 <= (if x <? 0 then Z.lnot x else x) < 2 ^ (w - 1)) by (destruct (Z.ltb_spec x 0); unfold Z.lnot; lia).
      replace (Z.lxor x (if x <? 0 then -1 else 0)) with (if x <? 0 then Z.lnot x else x) by (destruct (x <? 0); [symmetry; apply Z.lxor_m1_r | symmetry; apply Z.lxor_0_r]).
      assert (IT : in_T true w (if x <? 0 then Z.lnot x else x) = true) by (unfold in_T; apply andb_true_iff; split; [apply Z.leb_le | apply Z.ltb_lt]; lia).
      rewrite (norm_id true w _ Wp IT).
      split; [lia|]. apply msb_ladder_small; [exact Wp | reflexivity | exact Hu].
    - unfold in_T in HT. apply andb_true_iff in HT as [H1 H2]. apply Z.leb_le in H1. apply Z.ltb_lt in H2. split; [lia | reflexivity]. }
  destruct K as [Hu K]. split; [exact Hu|]. unfold findMSB. cbv zeta. fold msteps. rewrite K.
  rewrite count_of_complement by exact Hw.
  pose proof (smear_all (Z.to_nat w) u (smear_ok_width w Hw)) as S. rewrite Z2Nat.id in S by lia. rewrite S by exact Hu.
  destruct (Z.eqb_spec u 0) as [E|E]; [rewrite pc_zero; lia|].
  assert (L : 0 <= Z.log2 u < w) by (split; [apply Z.log2_nonneg | apply Z.log2_lt_pow2; lia]).
  replace (Z.log2 u + 1) with (Z.of_nat (Z.to_nat (Z.log2 u + 1))) by lia. rewrite pc_ones by lia. lia.
Qed.
