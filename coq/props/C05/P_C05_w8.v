(* C05, 8-bit element types: every value, and every (offset, bits) field, exhaustively *)
Require Import ZArith List Bool Lia.
Import ListNotations.
From GLMM Require Import Half IntFn.
From W Require Import A_C05_defs.
Local Open Scope Z_scope.
Lemma unary_u8 : forallb (unary_ok false 8) (vals false 8) = true. Proof. vm_cast_no_check (eq_refl true). Qed.
Lemma unary_i8 : forallb (unary_ok true 8) (vals true 8) = true. Proof. vm_cast_no_check (eq_refl true). Qed.
Lemma extract_u8 : forallb (extract_ok false 8) (vals false 8) = true. Proof. vm_cast_no_check (eq_refl true). Qed.
Lemma extract_i8 : forallb (extract_ok true 8) (vals true 8) = true. Proof. vm_cast_no_check (eq_refl true). Qed.
Lemma insert_u8 : forallb (insert_ok false 8) (vals false 8) = true. Proof. vm_cast_no_check (eq_refl true). Qed.
Lemma insert_i8 : forallb (insert_ok true 8) (vals true 8) = true. Proof. vm_cast_no_check (eq_refl true). Qed.
