(* C05, bitfieldReverse for EVERY value of the 32- and 64-bit element types (and again 8/16): the ladder of func_integer.inl
   ((v & Mask) << Shift | (v & ~Mask) >> Shift, six steps) distributes over bitwise OR, so it is determined by its values on
   the w single-bit inputs (OrHom.hom_orbits); those are checked by computation (2^i goes to 2^(w-1-i)), and the decomposition
   gives: bit j of the result is bit w-1-j of the argument. *)
Require Import ZArith List Bool Lia.
Import ListNotations.
From GLMV Require Import OrHom.
From GLMM Require Import IntFn.
Local Open Scope Z_scope.

Lemma umod_trunc w x : umod w x = trunc w x. Proof. reflexivity. Qed.
Lemma norm_false w x : norm false w x = trunc w x. Proof. reflexivity. Qed.
Lemma hom_mul_pow2 s : 0 <= s -> hom (fun x => x * 2 ^ s).
Proof. intros Hs. destruct (hom_shiftl s Hs) as (H0 & Hn & Hl). split; [reflexivity|]. split.
  - intros a Ha. apply Z.mul_nonneg_nonneg; [exact Ha|apply Z.pow_nonneg; lia].
  - intros a b Ha Hb. rewrite <- !Z.shiftl_mul_pow2 by lia. apply Hl; assumption. Qed.
Lemma hom_rev_step w st : 0 <= w -> 0 <= snd (fst st) -> hom (fun x => rev_step false w x st).
Proof.
  intros Hw Hs. destruct st as [[m s] minw]. cbn [fst snd] in Hs. unfold rev_step. destruct (w <? minw); [apply hom_id|].
  unfold bor, shl, shr, band, bnot, cst. rewrite !norm_false.
  apply (hom_comp (fun x => Z.lor (trunc w (trunc w (Z.land x (trunc w m)) * 2 ^ s)) (Z.shiftr (trunc w (Z.land x (trunc w (Z.lnot (trunc w m))))) s)) (trunc w)); [|apply hom_trunc, Hw].
  assert (Tn : forall z, 0 <= trunc w z) by (intros z; unfold trunc; apply Z.land_nonneg; right; rewrite Z.ones_equiv; pose proof (Z.pow_pos_nonneg 2 w ltac:(lia) Hw); lia).
  apply hom_lor.
  - apply (hom_comp (fun x => trunc w (Z.land x (trunc w m)) * 2 ^ s) (trunc w)); [|apply hom_trunc, Hw].
    apply (hom_comp (fun x => trunc w (Z.land x (trunc w m))) (fun y => y * 2 ^ s)); [|apply hom_mul_pow2, Hs].
    apply (hom_comp (fun x => Z.land x (trunc w m)) (trunc w)); [apply hom_land, Tn|apply hom_trunc, Hw].
  - apply (hom_comp (fun x => trunc w (Z.land x (trunc w (Z.lnot (trunc w m))))) (fun y => Z.shiftr y s)); [|apply hom_shiftr, Hs].
    apply (hom_comp (fun x => Z.land x (trunc w (Z.lnot (trunc w m)))) (trunc w)); [apply hom_land, Tn|apply hom_trunc, Hw].
Qed.
Lemma hom_rev_ladder w l : 0 <= w -> forallb (fun st => 0 <=? snd (fst st)) l = true -> hom (fun x => fold_left (rev_step false w) l x).
Proof.
  intros Hw. induction l as [|st l IH]; cbn [fold_left forallb]; intros H; [apply hom_id|]. apply andb_prop in H as [H1 H2].
  apply (hom_comp (fun x => rev_step false w x st) (fun y => fold_left (rev_step false w) l y)); [apply hom_rev_step; [exact Hw|apply Z.leb_le, H1]|apply IH, H2].
Qed.
Definition rev_u (w x : Z) : Z := fold_left (rev_step false w) ladder x.
(* the finite check: every single bit goes to the mirrored position *)
Definition rev_bits_ok (w : nat) : bool := all_below w (fun i => rev_u (Z.of_nat w) (2 ^ Z.of_nat i) =? 2 ^ (Z.of_nat w - 1 - Z.of_nat i)).
Lemma rev_bits_32 : rev_bits_ok 32 = true. Proof. vm_compute. reflexivity. Qed.
Lemma rev_bits_64 : rev_bits_ok 64 = true. Proof. vm_compute. reflexivity. Qed.
Lemma rev_bits_16 : rev_bits_ok 16 = true. Proof. vm_compute. reflexivity. Qed.
Lemma rev_bits_8 : rev_bits_ok 8 = true. Proof. vm_compute. reflexivity. Qed.
(* bit j of the OR of mirrored single bits *)
Lemma orbits_mirror (f : Z -> Z) (w : Z) (n : nat) x j : Z.of_nat n <= w -> 0 <= j ->
  (forall i, (i < n)%nat -> f (2 ^ Z.of_nat i) = 2 ^ (w - 1 - Z.of_nat i)) ->
  Z.testbit (orbits f n x) j = (w - 1 - j <? Z.of_nat n) && (0 <=? w - 1 - j) && Z.testbit x (w - 1 - j).
Proof.
  intros Hn Hj. induction n as [|k IH]; intros Hf; cbn [orbits].
  - rewrite Z.bits_0. change (Z.of_nat 0) with 0. destruct (Z.ltb_spec (w - 1 - j) 0), (Z.leb_spec 0 (w - 1 - j)); cbn [andb]; try reflexivity; lia.
  - rewrite Z.lor_spec, IH by (try lia; intros i Hi; apply Hf; lia). rewrite (Hf k) by lia.
    assert (Hbit : Z.testbit (if Z.testbit x (Z.of_nat k) then 2 ^ (w - 1 - Z.of_nat k) else 0) j = Z.testbit x (Z.of_nat k) && (w - 1 - Z.of_nat k =? j)).
    { destruct (Z.testbit x (Z.of_nat k)); [|apply Z.bits_0]. cbn [andb]. apply Z.pow2_bits_eqb. lia. }
    rewrite Hbit. clear Hbit IH.
    destruct (Z.eqb_spec (w - 1 - Z.of_nat k) j) as [E|E].
    + replace (w - 1 - j) with (Z.of_nat k) by lia. replace (Z.of_nat k <? Z.of_nat k) with false by (symmetry; apply Z.ltb_ge; lia).
      replace (Z.of_nat k <? Z.of_nat (S k)) with true by (symmetry; apply Z.ltb_lt; lia). replace (0 <=? Z.of_nat k) with true by (symmetry; apply Z.leb_le; lia). cbn [andb orb]. rewrite andb_true_r. reflexivity.
    + rewrite andb_false_r, orb_false_r. destruct (Z.ltb_spec (w - 1 - j) (Z.of_nat k)), (Z.ltb_spec (w - 1 - j) (Z.of_nat (S k))); try reflexivity; lia.
Qed.
Theorem reverse_bits (w : nat) x j : rev_bits_ok w = true -> 0 <= x < 2 ^ Z.of_nat w -> 0 <= j < Z.of_nat w ->
  Z.testbit (rev_u (Z.of_nat w) x) j = Z.testbit x (Z.of_nat w - 1 - j).
Proof.
  intros Hc Hx Hj. assert (H : hom (rev_u (Z.of_nat w))) by (apply hom_rev_ladder; [lia|reflexivity]).
  rewrite (hom_orbits _ w x H Hx). rewrite (orbits_mirror _ (Z.of_nat w) w x j); [| lia | lia |].
  - replace (Z.of_nat w - 1 - j <? Z.of_nat w) with true by (symmetry; apply Z.ltb_lt; lia). replace (0 <=? Z.of_nat w - 1 - j) with true by (symmetry; apply Z.leb_le; lia). reflexivity.
  - intros i Hi. apply Z.eqb_eq. apply (all_below_spec w _ Hc i Hi).
Qed.
(* for the element types: the bit pattern of bitfieldReverse(x) is the mirrored bit pattern of x, signed or unsigned *)
Theorem bitfieldReverse_all (sg : bool) (w : nat) x j : rev_bits_ok w = true -> (0 < w)%nat -> 0 <= j < Z.of_nat w ->
  Z.testbit (umod (Z.of_nat w) (bitfieldReverse sg (Z.of_nat w) x)) j = Z.testbit (umod (Z.of_nat w) x) (Z.of_nat w - 1 - j).
Proof.
  intros Hc Hw Hj. unfold bitfieldReverse. fold (rev_u (Z.of_nat w) (umod (Z.of_nat w) x)).
  assert (Hu : 0 <= umod (Z.of_nat w) x < 2 ^ Z.of_nat w) by (rewrite umod_mod by lia; apply Z.mod_pos_bound; apply Z.pow_pos_nonneg; lia).
  rewrite <- (reverse_bits w (umod (Z.of_nat w) x) j Hc Hu Hj).
  (* umod (norm sg w y) = umod y *)
  set (y := rev_u (Z.of_nat w) (umod (Z.of_nat w) x)).
  assert (E : umod (Z.of_nat w) (norm sg (Z.of_nat w) y) = umod (Z.of_nat w) y).
  { rewrite !umod_mod by lia. rewrite norm_mod by lia. cbv zeta. destruct (sg && (2 ^ (Z.of_nat w - 1) <=? y mod 2 ^ Z.of_nat w)).
    - rewrite <- (Z.mod_add _ 1) by (apply Z.pow_nonzero; lia). replace (y mod 2 ^ Z.of_nat w - 2 ^ Z.of_nat w + 1 * 2 ^ Z.of_nat w) with (y mod 2 ^ Z.of_nat w) by lia. apply Z.mod_mod. apply Z.pow_nonzero; lia.
    - apply Z.mod_mod. apply Z.pow_nonzero; lia. }
  rewrite E. rewrite umod_mod by lia. rewrite Z.mod_pow2_bits_low by lia. reflexivity.
Qed.
