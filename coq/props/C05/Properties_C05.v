(* Properties_C05.v -- C05: GLSL integer and bitfield functions return the specified exact result.
   Statements about the hand-written model GLMM.IntFn (glm/detail/func_integer.inl), tied to the code on every run by
   the correspondence check (scalar and vector overloads, widths 8-64, signed and unsigned; exhaustive for 8 bits).
   8/16-bit element types: exhaustive (finite domain).  32-bit carry/borrow/multiplication: all operands (lia/nia).
   bitfieldExtract unsigned: all widths, values and fields.  bitfieldReverse: every value of every width (OR-homomorphism).
   bitCount, findLSB, findMSB, bitfieldInsert: EVERY value of the 8/16/32/64-bit element types, signed and unsigned (PopLadder field invariant for
   the additive ladder; ~x & (x-1) counts trailing zeros; the smear ladder is an OR-homomorphism; bitfieldInsert bit by bit).
   Refuted statements = known findings (known_findings.txt): usubBorrow, signed bitfieldExtract.  (Fields of 32 bits and more of a
   64-bit element were a third one until the mask of bitfieldExtract was computed in the unsigned element type.) *)
Require Import ZArith List Bool.
Import ListNotations.
From GLMM Require Import Half IntFn.
From GLMV Require PopLadder.
From W Require P_C05_count P_C05_msb P_C05_insert.
From W Require A_C05_defs P_C05_w8 P_C05_w16_0 P_C05_w16_1 P_C05_w16_2 P_C05_w16_3 P_C05_w16_4 P_C05_w16_5 P_C05_w16_6 P_C05_w16_7 P_C05_general P_C05_reverse.
Import A_C05_defs.
Local Open Scope Z_scope.
Theorem C05_uint8_all_values : forallb (unary_ok false 8) (vals false 8) = true. Proof. exact P_C05_w8.unary_u8. Qed.
Theorem C05_int8_all_values : forallb (unary_ok true 8) (vals true 8) = true. Proof. exact P_C05_w8.unary_i8. Qed.
Theorem C05_uint8_extract_all_fields : forallb (extract_ok false 8) (vals false 8) = true. Proof. exact P_C05_w8.extract_u8. Qed.
Theorem C05_int8_extract_fields_with_clear_top_bit : forallb (extract_ok true 8) (vals true 8) = true. Proof. exact P_C05_w8.extract_i8. Qed.
Theorem C05_uint8_insert_all_fields : forallb (insert_ok false 8) (vals false 8) = true. Proof. exact P_C05_w8.insert_u8. Qed.
Theorem C05_int8_insert_all_fields : forallb (insert_ok true 8) (vals true 8) = true. Proof. exact P_C05_w8.insert_i8. Qed.
Theorem C05_16bit_all_values :
  forallb (fun k => forallb (unary_ok false 16) (shard16 false k) && forallb (unary_ok true 16) (shard16 true k)) [0; 1; 2; 3; 4; 5; 6; 7] = true.
Proof. cbn [forallb]. rewrite P_C05_w16_0.unary_u16, P_C05_w16_0.unary_i16, P_C05_w16_1.unary_u16, P_C05_w16_1.unary_i16, P_C05_w16_2.unary_u16, P_C05_w16_2.unary_i16,
  P_C05_w16_3.unary_u16, P_C05_w16_3.unary_i16, P_C05_w16_4.unary_u16, P_C05_w16_4.unary_i16, P_C05_w16_5.unary_u16, P_C05_w16_5.unary_i16,
  P_C05_w16_6.unary_u16, P_C05_w16_6.unary_i16, P_C05_w16_7.unary_u16, P_C05_w16_7.unary_i16. reflexivity. Qed.
Theorem C05_uaddCarry : forall x y, 0 <= x < 2 ^ 32 -> 0 <= y < 2 ^ 32 -> let '(r, c) := uaddCarry x y in r + c * 2 ^ 32 = x + y /\ 0 <= r < 2 ^ 32 /\ (c = 0 \/ c = 1).
Proof. exact P_C05_general.uaddCarry_correct. Qed.
Theorem C05_umulExtended : forall x y, 0 <= x < 2 ^ 32 -> 0 <= y < 2 ^ 32 -> let '(m, l) := umulExtended x y in m * 2 ^ 32 + l = x * y /\ 0 <= l < 2 ^ 32 /\ 0 <= m < 2 ^ 32.
Proof. exact P_C05_general.umulExtended_correct. Qed.
Theorem C05_imulExtended : forall x y, - 2 ^ 31 <= x < 2 ^ 31 -> - 2 ^ 31 <= y < 2 ^ 31 ->
  let '(m, l) := imulExtended x y in m * 2 ^ 32 + l mod 2 ^ 32 = x * y /\ - 2 ^ 31 <= l < 2 ^ 31 /\ - 2 ^ 31 <= m < 2 ^ 31.
Proof. exact P_C05_general.imulExtended_correct. Qed.
Theorem C05_bitfieldExtract_unsigned_all_widths : forall w v off bits, (w = 8 \/ w = 16 \/ w = 32 \/ w = 64) -> 0 <= v < 2 ^ w -> 0 <= off -> 0 <= bits -> off + bits <= w ->
  bitfieldExtract false w v off bits = extract_spec false w v off bits.
Proof. exact P_C05_general.bitfieldExtract_unsigned. Qed.
(* usubBorrow: full statement is false of the faithful model; what holds *)
Theorem C05_usubBorrow_refuted : exists x y, 0 <= x < 2 ^ 32 /\ 0 <= y < 2 ^ 32 /\ fst (usubBorrow x y) <> (x - y) mod 2 ^ 32.
Proof. exact P_C05_general.usubBorrow_refuted. Qed.
Theorem C05_usubBorrow_partial : forall x y, 0 <= x < 2 ^ 32 -> 0 <= y < 2 ^ 32 -> x = y \/ x - y = 2 ^ 31 \/ y - x = 2 ^ 31 -> fst (usubBorrow x y) = (x - y) mod 2 ^ 32.
Proof. exact P_C05_general.usubBorrow_partial. Qed.
Theorem C05_usubBorrow_computes_y_minus_x : forall x y, 0 <= x < 2 ^ 32 -> 0 <= y < 2 ^ 32 -> let '(r, b) := usubBorrow x y in r = (y - x) mod 2 ^ 32 /\ b = (if x <? y then 1 else 0).
Proof. exact P_C05_general.usubBorrow_characterised. Qed.
Theorem C05_bitfieldExtract_signed_refuted : exists v off bits, in_T true 32 v = true /\ 0 <= off /\ 0 <= bits /\ off + bits <= 32 /\ bitfieldExtract true 32 v off bits <> extract_spec true 32 v off bits.
Proof. exact P_C05_general.bitfieldExtract_signed_refuted. Qed.
(* bitfieldReverse, EVERY value of the 32- and 64-bit element types, signed and unsigned: bit j of the result is bit w-1-j of the
   argument (the ladder distributes over OR; its 32 / 64 single-bit values are checked by computation) *)
Theorem C05_bitfieldReverse_all_32bit_values : forall sg x j, 0 <= j < 32 -> Z.testbit (umod 32 (bitfieldReverse sg 32 x)) j = Z.testbit (umod 32 x) (31 - j).
Proof. intros sg x j Hj. exact (P_C05_reverse.bitfieldReverse_all sg 32 x j P_C05_reverse.rev_bits_32 ltac:(auto with arith) Hj). Qed.
Theorem C05_bitfieldReverse_all_64bit_values : forall sg x j, 0 <= j < 64 -> Z.testbit (umod 64 (bitfieldReverse sg 64 x)) j = Z.testbit (umod 64 x) (63 - j).
Proof. intros sg x j Hj. exact (P_C05_reverse.bitfieldReverse_all sg 64 x j P_C05_reverse.rev_bits_64 ltac:(auto with arith) Hj). Qed.
(* bitCount: the number of one bits of the argument's bit pattern, for every value of every element type (popcount = IntFn's bit-by-bit specification) *)
Theorem C05_bitCount_all_values : forall sg w x, (w = 8 \/ w = 16 \/ w = 32 \/ w = 64) -> bitCount sg w x = popcount w x.
Proof. exact P_C05_count.bitCount_all. Qed.
(* findLSB: -1 for 0, otherwise the index r of a one bit with no one bit below it *)
Theorem C05_findLSB_all_values : forall sg w x, (w = 8 \/ w = 16 \/ w = 32 \/ w = 64) -> in_T sg w x = true ->
  (x = 0 -> findLSB sg w x = -1) /\
  (x <> 0 -> let r := findLSB sg w x in 0 <= r < w /\ Z.testbit (umod w x) r = true /\ forall i, 0 <= i < r -> Z.testbit (umod w x) i = false).
Proof. exact P_C05_count.findLSB_all. Qed.
(* findMSB: with u = x for x >= 0 (and for unsigned types) and u = ~x for negative x: -1 when u = 0, otherwise the index log2 u of the highest one bit
   of u (for negative x: the highest zero bit of x) *)
Theorem C05_findMSB_all_values : forall sg w x, (w = 8 \/ w = 16 \/ w = 32 \/ w = 64) -> in_T sg w x = true ->
  let u := if sg && (x <? 0) then Z.lnot x else x in 0 <= u < 2 ^ w /\ findMSB sg w x = if u =? 0 then -1 else Z.log2 u.
Proof. exact P_C05_msb.findMSB_all. Qed.
(* bitfieldInsert: bit i of the result is bit i - offset of Insert inside [offset, offset + bits) and bit i of Base outside *)
Theorem C05_bitfieldInsert_all_values : forall sg w base ins off bits i, (w = 8 \/ w = 16 \/ w = 32 \/ w = 64) -> 0 <= off -> 0 <= bits -> off + bits <= w -> 0 <= i < w ->
  Z.testbit (umod w (bitfieldInsert sg w base ins off bits)) i = if (off <=? i) && (i <? off + bits) then Z.testbit ins (i - off) else Z.testbit base i.
Proof. exact P_C05_insert.bitfieldInsert_all. Qed.
(* the statements are not vacuous: concrete instances through the same theorems *)
Example C05_bitCount_instance : bitCount false 32 4042322160 = 16 /\ findLSB true 64 (-9223372036854775808) = 63 /\ findMSB true 32 (-1) = -1 /\ findMSB false 64 18446744073709551615 = 63.
Proof. vm_compute. repeat split; reflexivity. Qed.
Print Assumptions C05_16bit_all_values.
Print Assumptions C05_bitCount_all_values.
Print Assumptions C05_findLSB_all_values.
Print Assumptions C05_findMSB_all_values.
Print Assumptions C05_bitfieldInsert_all_values.
Print Assumptions C05_imulExtended.
Print Assumptions C05_bitfieldExtract_unsigned_all_widths.
Print Assumptions C05_usubBorrow_refuted.
Print Assumptions C05_bitfieldReverse_all_64bit_values.
