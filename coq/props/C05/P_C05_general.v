(* C05, statements for all 32-bit operands (carry/borrow/extended multiplication) and all widths (bitfieldExtract),
   plus the refuted statements (known findings) with their witnesses. *)
Require Import ZArith List Bool Lia.
Import ListNotations.
From GLMM Require Import Half IntFn.
Local Open Scope Z_scope.
Ltac Zify.zify_post_hook ::= Z.div_mod_to_equations.

Lemma uaddCarry_correct x y : 0 <= x < 2 ^ 32 -> 0 <= y < 2 ^ 32 ->
  let '(r, c) := uaddCarry x y in r + c * 2 ^ 32 = x + y /\ 0 <= r < 2 ^ 32 /\ (c = 0 \/ c = 1).
Proof. intros Hx Hy. unfold uaddCarry. change (2 ^ 32) with 4294967296 in *. destruct (4294967296 - 1 <? x + y) eqn:E; [apply Z.ltb_lt in E | apply Z.ltb_ge in E]; lia. Qed.
Lemma umulExtended_correct x y : 0 <= x < 2 ^ 32 -> 0 <= y < 2 ^ 32 ->
  let '(m, l) := umulExtended x y in m * 2 ^ 32 + l = x * y /\ 0 <= l < 2 ^ 32 /\ 0 <= m < 2 ^ 32.
Proof. intros Hx Hy. unfold umulExtended. change (2 ^ 32) with 4294967296 in *. assert (0 <= x * y) by nia. assert (x * y < 4294967296 * 4294967296) by nia. lia. Qed.
Lemma imulExtended_correct x y : - 2 ^ 31 <= x < 2 ^ 31 -> - 2 ^ 31 <= y < 2 ^ 31 ->
  let '(m, l) := imulExtended x y in m * 2 ^ 32 + l mod 2 ^ 32 = x * y /\ - 2 ^ 31 <= l < 2 ^ 31 /\ - 2 ^ 31 <= m < 2 ^ 31.
Proof.
  intros Hx Hy. unfold imulExtended. rewrite !norm_mod by lia. cbv zeta. change (true && ?b) with b. change (2 ^ 32) with 4294967296 in *. change (2 ^ 31) with 2147483648 in *. change (2 ^ (32 - 1)) with 2147483648.
  assert (Hv : - (2147483648 * 2147483648) <= x * y <= 2147483648 * 2147483648) by nia.
  set (v := x * y) in *. clearbody v.
  destruct (2147483648 <=? (v / 4294967296) mod 4294967296) eqn:E1; destruct (2147483648 <=? v mod 4294967296) eqn:E2;
  [apply Z.leb_le in E1 | apply Z.leb_le in E1 | apply Z.leb_gt in E1 | apply Z.leb_gt in E1]; [apply Z.leb_le in E2 | apply Z.leb_gt in E2 | apply Z.leb_le in E2 | apply Z.leb_gt in E2]; lia.
Qed.
(* usubBorrow: the borrow flag is right, the difference is computed the wrong way round (y - x instead of x - y) *)
Lemma usubBorrow_characterised x y : 0 <= x < 2 ^ 32 -> 0 <= y < 2 ^ 32 ->
  let '(r, b) := usubBorrow x y in r = (y - x) mod 2 ^ 32 /\ b = (if x <? y then 1 else 0).
Proof. intros Hx Hy. unfold usubBorrow. change (2 ^ 32) with 4294967296 in *.
  destruct (x <=? y) eqn:E1; destruct (y <=? x) eqn:E2; destruct (x <? y) eqn:E3;
  try apply Z.leb_le in E1; try apply Z.leb_gt in E1; try apply Z.leb_le in E2; try apply Z.leb_gt in E2; try apply Z.ltb_lt in E3; try apply Z.ltb_ge in E3; split; lia. Qed.
Lemma usubBorrow_refuted : exists x y, 0 <= x < 2 ^ 32 /\ 0 <= y < 2 ^ 32 /\ fst (usubBorrow x y) <> (x - y) mod 2 ^ 32.
Proof. exists 16, 17. vm_compute. repeat split; discriminate. Qed.
Lemma usubBorrow_partial x y : 0 <= x < 2 ^ 32 -> 0 <= y < 2 ^ 32 -> x = y \/ x - y = 2 ^ 31 \/ y - x = 2 ^ 31 -> fst (usubBorrow x y) = (x - y) mod 2 ^ 32.
Proof. intros Hx Hy H. pose proof (usubBorrow_characterised x y Hx Hy) as C. destruct (usubBorrow x y) as [r b]. destruct C as [-> _]. cbn [fst]. change (2 ^ 32) with 4294967296 in *. change (2 ^ 31) with 2147483648 in *. lia. Qed.

(* bitfieldExtract, unsigned element types of every width: bits [offset, offset+bits) zero-extended, for EVERY field (also the
   whole word, and fields of 32 bits and more of a 64-bit element: the mask is computed in the unsigned element type) *)
Lemma land_ones_pow n a : 0 <= n -> Z.land a (2 ^ n - 1) = a mod 2 ^ n.
Proof. intros Hn. replace (2 ^ n - 1) with (Z.ones n) by (rewrite Z.ones_equiv; lia). apply Z.land_ones; exact Hn. Qed.
Lemma bitfieldExtract_unsigned w v off bits : (w = 8 \/ w = 16 \/ w = 32 \/ w = 64) -> 0 <= v < 2 ^ w -> 0 <= off -> 0 <= bits -> off + bits <= w ->
  bitfieldExtract false w v off bits = extract_spec false w v off bits.
Proof.
  intros Hw Hv Ho Hb Hob. unfold bitfieldExtract, extract_spec, band, shr. rewrite !umod_mod by lia. cbn [andb]. rewrite Z.shiftr_div_pow2 by lia.
  assert (Hpw : 0 < 2 ^ w) by (apply Z.pow_pos_nonneg; lia). assert (Hpb : 0 < 2 ^ bits <= 2 ^ w) by (split; [apply Z.pow_pos_nonneg; lia | apply Z.pow_le_mono_r; lia]).
  assert (Hmask : mask_T false w bits = 2 ^ bits - 1).
  { unfold mask_T. destruct (Z.leb_spec w bits) as [Hge|Hlt].
    - assert (bits = w) by lia. subst bits. rewrite norm_mod by lia. cbn [andb]. replace ((-1) mod 2 ^ w) with (2 ^ w - 1); [reflexivity|].
      apply (Z.mod_unique (-1) (2 ^ w) (-1) (2 ^ w - 1)); lia.
    - rewrite norm_mod by lia. cbn [andb]. apply Z.mod_small. lia. }
  rewrite Hmask. rewrite (Z.mod_small (2 ^ bits - 1)) by lia.
  rewrite land_ones_pow by lia. rewrite (Z.mod_small v) by lia.
  assert (0 <= (v / 2 ^ off) mod 2 ^ bits < 2 ^ bits) by (apply Z.mod_pos_bound; lia). rewrite Z.mod_small by lia. reflexivity.
Qed.
(* known findings (refuted statements with witnesses) *)
Lemma bitfieldExtract_signed_refuted : exists v off bits, in_T true 32 v = true /\ 0 <= off /\ 0 <= bits /\ off + bits <= 32 /\ bitfieldExtract true 32 v off bits <> extract_spec true 32 v off bits.
Proof. exists (-1), 0, 4. vm_compute. repeat split; discriminate. Qed.
