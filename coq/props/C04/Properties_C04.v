(* Properties_C04.v -- C04: quaternion, matrix, axis-angle and Euler forms of a rotation agree.
   Statements only; proofs are `exact <lemma>` from P_C04_*.v, checked against the models regenerated from /repo on
   this run in both quaternion storage orders (W.Gen_C04, W.Gen_C04_WXYZ).  Real-number semantics (evalR).
   Not (yet) theorems, exercised by the oracle only: quat(eulerAngles q) and the extractEulerAngleABC round trips. *)
Require Import ZArith List String Bool Reals.
Import ListNotations.
From GLMV Require Import Expr SemR Cat Comm Chk SpecLinAlg SpecProj SpecGeom.
From W Require Gen_C04 Gen_C04_WXYZ P_C04_a P_C04_euler P_C04_wxyz P_C04_axis P_C04_cast P_C04_aa P_C04_two P_C04_derived.
Local Open Scope string_scope.
Theorem C04_rotation_by_quaternion_is_its_matrix : P_C04_a.rot_ok. Proof. exact P_C04_a.rot_def. Qed.
Theorem C04_matrix_of_product_is_product_of_matrices : P_C04_a.prod_ok. Proof. exact P_C04_a.prod_def. Qed.
Theorem C04_inverse_conjugate_hamilton : P_C04_a.inv_ok. Proof. exact P_C04_a.inv_def. Qed.
Theorem C04_single_axis_rotations : P_C04_euler.single_ok. Proof. exact P_C04_euler.single_def. Qed.
Theorem C04_two_axis_euler_matrices_factor : Forall P_C04_euler.two_ok P_C04_euler.twos. Proof. exact P_C04_euler.two_axis. Qed.
Theorem C04_three_axis_euler_matrices_factor : Forall P_C04_euler.three_ok P_C04_euler.threes. Proof. exact P_C04_euler.three_axis. Qed.
Theorem C04_yawPitchRoll : P_C04_euler.ypr_ok. Proof. exact P_C04_euler.ypr_def. Qed.
Theorem C04_storage_order_changes_nothing :
  P_C04_wxyz.same_cat Gen_C04.catalogue Gen_C04_WXYZ.catalogue = true /\ (60 <=? Z.of_nat (List.length Gen_C04.catalogue))%Z = true.
Proof. exact P_C04_wxyz.wxyz_same. Qed.
(* axis(q) of a unit quaternion is a unit vector for every q, (0,0,1) at w = +-1 *)
Theorem C04_axis_is_a_unit_vector : forall env, (P_C04_axis.qx env * P_C04_axis.qx env + P_C04_axis.qy env * P_C04_axis.qy env + P_C04_axis.qz env * P_C04_axis.qz env + P_C04_axis.qw env * P_C04_axis.qw env = 1)%R ->
  exists a b c, evalT env Gen_C04.t_axis_q = Some (true, [a; b; c]) /\ (a * a + b * b + c * c = 1)%R /\
    ((1 - P_C04_axis.qw env * P_C04_axis.qw env <= 0)%R -> a = 0%R /\ b = 0%R /\ c = 1%R) /\
    ((0 < 1 - P_C04_axis.qw env * P_C04_axis.qw env)%R -> exists s, (0 < s)%R /\ a = (P_C04_axis.qx env * s)%R /\ b = (P_C04_axis.qy env * s)%R /\ c = (P_C04_axis.qz env * s)%R).
Proof. exact P_C04_axis.axis_is_unit. Qed.
(* quat_cast(mat3_cast q) = +-q and quat_cast(mat4_cast q) = +-q for every unit q (all 8 paths of the largest-of-four tree) *)
Theorem C04_quat_cast_of_mat3_cast_is_plus_or_minus_q : P_C04_cast.cast_ok Gen_C04.t_quat_cast_of_mat3_cast. Proof. exact P_C04_cast.cast3_def. Qed.
Theorem C04_quat_cast_of_mat4_cast_is_plus_or_minus_q : P_C04_cast.cast_ok Gen_C04.t_quat_cast_of_mat4_cast. Proof. exact P_C04_cast.cast4_def. Qed.
(* angleAxis(angle q, axis q): q itself for w >= -cos(1/2); q turned by float(pi) - pi about its own axis below that *)
Theorem C04_angleAxis_of_angle_and_axis : P_C04_aa.aa_ok Gen_C04.t_angleAxis_of_angle_axis. Proof. exact P_C04_aa.aa_def. Qed.
Theorem C04_float_pi_is_close : (0 <= 1 - P_C04_aa.A_ <= 1 / 2 ^ 40 /\ Rabs P_C04_aa.B_ <= 1 / 2 ^ 22)%R. Proof. exact P_C04_aa.float_pi_is_close. Qed.
(* qua(u, v) rotates u onto the direction of v (standard branch), and onto -u on the nearly-opposite branch *)
Theorem C04_two_vector_quaternion_rotates_u_to_v : P_C04_two.two_ok Gen_C04.t_two_vectors_rotate_u. Proof. exact P_C04_two.two_def. Qed.
Theorem C04_two_vector_quaternion_opposite : P_C04_two.opp_ok Gen_C04.t_two_vectors_rotate_u. Proof. exact P_C04_two.opp_def. Qed.
(* gtx derivedEulerAngleX/Y/Z(angle, speed) = speed * d/d(angle) eulerAngleX/Y/Z(angle), entry by entry; orientate2 / orientate3(angle) *)
Theorem C04_derivedEulerAngleX_is_the_derivative : P_C04_derived.derived_ok Gen_C04.t_eulerAngleX Gen_C04.t_derivedEulerAngleX. Proof. exact P_C04_derived.derivedX. Qed.
Theorem C04_derivedEulerAngleY_is_the_derivative : P_C04_derived.derived_ok Gen_C04.t_eulerAngleY Gen_C04.t_derivedEulerAngleY. Proof. exact P_C04_derived.derivedY. Qed.
Theorem C04_derivedEulerAngleZ_is_the_derivative : P_C04_derived.derived_ok Gen_C04.t_eulerAngleZ Gen_C04.t_derivedEulerAngleZ. Proof. exact P_C04_derived.derivedZ. Qed.
Theorem C04_orientate2_orientate3 : P_C04_derived.orientate_ok. Proof. exact P_C04_derived.orientate_def. Qed.
Print Assumptions C04_derivedEulerAngleX_is_the_derivative.
Print Assumptions C04_rotation_by_quaternion_is_its_matrix.
Print Assumptions C04_matrix_of_product_is_product_of_matrices.
Print Assumptions C04_inverse_conjugate_hamilton.
Print Assumptions C04_three_axis_euler_matrices_factor.
Print Assumptions C04_storage_order_changes_nothing.
Print Assumptions C04_axis_is_a_unit_vector.
Print Assumptions C04_quat_cast_of_mat3_cast_is_plus_or_minus_q.
Print Assumptions C04_angleAxis_of_angle_and_axis.
Print Assumptions C04_float_pi_is_close.
Print Assumptions C04_two_vector_quaternion_rotates_u_to_v.
Print Assumptions C04_two_vector_quaternion_opposite.
