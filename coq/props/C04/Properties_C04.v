(* Properties_C04.v -- C04: quaternion, matrix, axis-angle and Euler forms of a rotation agree.
   Statements only; proofs are `exact <lemma>` from P_C04_*.v, checked against the models regenerated from /repo on
   this run in both quaternion storage orders (W.Gen_C04, W.Gen_C04_WXYZ).  Real-number semantics (evalR).
   Not (yet) theorems, exercised by the oracle only: quat_cast(mat3_cast q) = +-q, angleAxis(angle q, axis q) = q,
   quat(eulerAngles q), the two-vector constructor, extractEulerAngleABC round trips. *)
Require Import ZArith List String Bool Reals.
Import ListNotations.
From GLMV Require Import Expr SemR Cat Comm Chk SpecLinAlg SpecProj SpecGeom.
From W Require Gen_C04 Gen_C04_WXYZ P_C04_a P_C04_euler P_C04_wxyz.
Local Open Scope string_scope.
Theorem C04_rotation_by_quaternion_is_its_matrix : P_C04_a.rot_ok. Proof. exact P_C04_a.rot_def. Qed.
Theorem C04_matrix_of_product_is_product_of_matrices : P_C04_a.prod_ok. Proof. exact P_C04_a.prod_def. Qed.
Theorem C04_inverse_conjugate_hamilton : P_C04_a.inv_ok. Proof. exact P_C04_a.inv_def. Qed.
Theorem C04_single_axis_rotations : P_C04_euler.single_ok. Proof. exact P_C04_euler.single_def. Qed.
Theorem C04_two_axis_euler_matrices_factor : Forall P_C04_euler.two_ok P_C04_euler.twos. Proof. exact P_C04_euler.two_axis. Qed.
Theorem C04_three_axis_euler_matrices_factor : Forall P_C04_euler.three_ok P_C04_euler.threes. Proof. exact P_C04_euler.three_axis. Qed.
Theorem C04_yawPitchRoll : P_C04_euler.ypr_ok. Proof. exact P_C04_euler.ypr_def. Qed.
Theorem C04_storage_order_changes_nothing :
  P_C04_wxyz.same_cat Gen_C04.catalogue Gen_C04_WXYZ.catalogue = true /\ (60 <=? Z.of_nat (List.length Gen_C04.catalogue))%Z = true.
Proof. exact P_C04_wxyz.wxyz_same. Qed.
Print Assumptions C04_rotation_by_quaternion_is_its_matrix.
Print Assumptions C04_matrix_of_product_is_product_of_matrices.
Print Assumptions C04_inverse_conjugate_hamilton.
Print Assumptions C04_three_axis_euler_matrices_factor.
Print Assumptions C04_storage_order_changes_nothing.
