(* C04 (continued): angleAxis(angle q, axis q) for every unit quaternion.  Exactly q when w >= -cos(1/2) (acos branch, and asin branch with
   w > 0).  For w < -cos(1/2) the code returns 2*float(pi) - 2*asin(|v|), so the result is q turned by float(pi) - pi about its own axis:
   stated exactly with A = -cos(float(pi)), B = sin(float(pi)) and the bounds 0 <= 1 - A <= 2^-40, |B| <= 2^-22 (Interval).  At w = +-1 (axis
   arbitrary) the result is the identity rotation. *)
Require Import ZArith List String Bool Reals Lra.
From Interval Require Import Tactic.
Import ListNotations.
From GLMV Require Import Expr SemR Cat.
From W Require Gen_C04.
Local Open Scope R_scope.
Definition qx (env : renv) := env F32 0%Z 0%Z. Definition qy (env : renv) := env F32 0%Z 1%Z. Definition qz (env : renv) := env F32 0%Z 2%Z. Definition qw (env : renv) := env F32 0%Z 3%Z.
Ltac ev := cbv [map evalT evalR evalRB binR unR cmpR cstR forallb Z.leb Z.ltb Z.compare Z.mul Z.pow Z.pow_pos Pos.iter Pos.mul Z.opp Z.abs].
Ltac no_dec t := lazymatch t with context [Rle_dec _ _] => fail | context [Rlt_dec _ _] => fail | _ => idtac end.
Ltac split_dec := repeat (match goal with
  | |- context [Rle_dec ?a ?b] => no_dec a; no_dec b; destruct (Rle_dec a b)
  | |- context [Rlt_dec ?a ?b] => no_dec a; no_dec b; destruct (Rlt_dec a b)
  end; ev).
Ltac lists tac := match goal with |- Some (true, ?l) = Some (true, ?r) => apply (f_equal (fun z : list R => Some (true, z))) end; repeat match goal with |- cons _ _ = cons _ _ => apply (f_equal2 (@cons R)); [tac|] | |- nil = nil => reflexivity end.
Definition pif : R := 13176795 / 4194304.          (* float(pi) *)
Definition c12 : R := 230053 / 262144.             (* cos_one_over_two<float>() *)
Definition A_ : R := - cos pif. Definition B_ : R := sin pif.
Lemma float_pi_is_close : 0 <= 1 - A_ <= 1 / 2 ^ 40 /\ Rabs B_ <= 1 / 2 ^ 22.
Proof. unfold A_, B_, pif. split; [split|]; interval with (i_prec 80). Qed.
Definition s_ (env : renv) : R := sqrt (1 - qw env * qw env).
Definition aa_ok (t : tree) : Prop := forall env, qx env * qx env + qy env * qy env + qz env * qz env + qw env * qw env = 1 ->
  evalT env t = Some (true,
    if Rle_dec (1 - qw env * qw env) 0 then (if Rle_dec 0 (qw env) then [0; 0; 0; 1] else [0; 0; sin pif; cos pif])
    else if Rlt_dec (qw env) (- c12) then [qx env * (A_ + (- qw env / s_ env) * B_); qy env * (A_ + (- qw env / s_ env) * B_); qz env * (A_ + (- qw env / s_ env) * B_); qw env * A_ + s_ env * B_]
    else [qx env; qy env; qz env; qw env]).
Theorem aa_def : aa_ok Gen_C04.t_angleAxis_of_angle_axis.
Proof.
  unfold aa_ok, s_, A_, B_, pif, c12, qx, qy, qz, qw. intros env U. unfold Gen_C04.t_angleAxis_of_angle_axis. ev. unfold Rdiv.
  set (x := env F32 0%Z 0%Z) in *. set (y := env F32 0%Z 1%Z) in *. set (z := env F32 0%Z 2%Z) in *. set (w := env F32 0%Z 3%Z) in *.
  replace (x * x + y * y + z * z) with (1 - w * w) by lra.
  assert (W2 : 0 <= 1 - w * w) by (pose proof (Rle_0_sqr x); pose proof (Rle_0_sqr y); pose proof (Rle_0_sqr z); unfold Rsqr in *; lra).
  assert (W1 : -1 <= w <= 1) by (split; nra).
  set (s := sqrt (1 - w * w)).
  assert (S0 : 0 <= s) by apply sqrt_pos. assert (SS : s * s = 1 - w * w) by (apply sqrt_sqrt; exact W2).
  assert (S1 : -1 <= s <= 1) by (split; nra).
  replace (asin s * 2 * (1 * / 2)) with (asin s) by field.
  replace ((13176795 * / 4194304 * 2 - asin s * 2) * (1 * / 2)) with (13176795 * / 4194304 - asin s) by field.
  replace (acos w * 2 * (1 * / 2)) with (acos w) by field.
  rewrite sin_minus, cos_minus, (sin_asin s S1), (cos_asin s S1), (cos_acos w W1), (sin_acos w W1). unfold Rsqr. rewrite SS. replace (1 - (1 - w * w)) with (w * w) by ring. fold s.
  split_dec; try (exfalso; lra);
  try (rewrite (sqrt_square w) by lra);
  try (replace (w * w) with ((- w) * (- w)) by ring; rewrite (sqrt_square (- w)) by lra);
  try match goal with H : 1 - w * w <= 0 |- _ => assert (Z0 : s = 0) by (apply Rsqr_0_uniq; unfold Rsqr; lra); assert (WW : w * w = 1) by lra;
         first [ assert (W3 : w = 1) by nra | assert (W3 : w = -1) by nra ]; rewrite Z0; try rewrite W3 end;
  try match goal with H : ~ 1 - w * w <= 0 |- _ => assert (Z0 : 0 < s) by (apply sqrt_lt_R0; lra) end;
  try (exfalso; lra);
  lists ltac:(first [reflexivity | ring | field; lra]).
Qed.
(* the hypotheses are satisfiable in the branch that uses float(pi): a unit quaternion with w < -cos(1/2) *)
Example turned_branch_exists : exists env : renv, qx env * qx env + qy env * qy env + qz env * qz env + qw env * qw env = 1 /\ qw env < - c12 /\ 0 < 1 - qw env * qw env.
Proof. exists (fun _ _ i => if Z.eqb i 0 then 5 / 13 else if Z.eqb i 3 then - 12 / 13 else 0). unfold qx, qy, qz, qw, c12. cbn. repeat split; lra. Qed.
