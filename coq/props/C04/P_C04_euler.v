(* C04: every gtx eulerAngleAB / eulerAngleABC matrix is the product of its single-axis factors, and the
   single-axis builders are the elementary rotations (ring with sin/cos of the angles as atoms). *)
Require Import ZArith List String Bool Reals Lra.
Import ListNotations.
From GLMV Require Import Expr SemR Cat Comm Chk SpecLinAlg SpecProj SpecGeom.
From W Require Gen_C04.
Local Open Scope string_scope.
Local Open Scope Z_scope.
Definition cat := Gen_C04.catalogue.
Ltac evR' := cbv [eqR map evalR evalRB binR unR cmpR cstR Z.leb Z.ltb Z.compare Z.mul Z.pow Z.pow_pos Pos.iter Pos.mul Z.opp Z.abs fst snd app].
Ltac norm2 env := repeat match goal with |- context [map (evalR env) ?a] => progress (let a' := eval vm_compute in a in change (map (evalR env) a) with (map (evalR env) a')) end.
Definition get (n : string) : list expr := match outs_of cat n with Some o => o | None => nil end.
Definition mat4_mul (A Bm : list expr) : list expr := mm_gen (ec 0) eadd emul 4 4 4 (nth_e A) (nth_e Bm).
Definition cs (j : Z) := U Cos F32 (V F32 0 j).
Definition sn (j : Z) := U Sin F32 (V F32 0 j).
(* elementary rotations about X, Y, Z by the angle in parameter j (column-major 4x4) *)
Definition rotX (j : Z) : list expr := [ec 1; ec 0; ec 0; ec 0;  ec 0; cs j; sn j; ec 0;  ec 0; eneg (sn j); cs j; ec 0;  ec 0; ec 0; ec 0; ec 1].
Definition rotY (j : Z) : list expr := [cs j; ec 0; eneg (sn j); ec 0;  ec 0; ec 1; ec 0; ec 0;  sn j; ec 0; cs j; ec 0;  ec 0; ec 0; ec 0; ec 1].
Definition rotZ (j : Z) : list expr := [cs j; sn j; ec 0; ec 0;  eneg (sn j); cs j; ec 0; ec 0;  ec 0; ec 0; ec 1; ec 0;  ec 0; ec 0; ec 0; ec 1].
Definition axis_rot (a : string) : Z -> list expr := if String.eqb a "X" then rotX else if String.eqb a "Y" then rotY else rotZ.
Definition single_ok : Prop := forall env, eqR env (get "eulerAngleX") (rotX 0) /\ eqR env (get "eulerAngleY") (rotY 0) /\ eqR env (get "eulerAngleZ") (rotZ 0).
Lemma single_def : single_ok. Proof. intros env. repeat split; unfold eqR; norm2 env; evR'; list_ring. Qed.

Definition two_ok (ab : string * string) : Prop := let '(a, b) := ab in
  outs_of cat ("eulerAngle" ++ a ++ b) <> None /\ forall env, eqR env (get ("eulerAngle" ++ a ++ b)) (mat4_mul (axis_rot a 0) (axis_rot b 1)).
Definition three_ok (abc : string * string * string) : Prop := let '(a, b, c) := abc in
  outs_of cat ("eulerAngle" ++ a ++ b ++ c) <> None /\ forall env, eqR env (get ("eulerAngle" ++ a ++ b ++ c)) (mat4_mul (mat4_mul (axis_rot a 0) (axis_rot b 1)) (axis_rot c 2)).
Definition twos := [("X","Y"); ("Y","X"); ("X","Z"); ("Z","X"); ("Y","Z"); ("Z","Y")].
Definition threes := [("X","Y","Z"); ("Y","X","Z"); ("X","Z","X"); ("X","Y","X"); ("Y","X","Y"); ("Y","Z","Y"); ("Z","Y","Z"); ("Z","X","Z"); ("X","Z","Y"); ("Y","Z","X"); ("Z","Y","X"); ("Z","X","Y")].
Ltac fac := split; [vm_compute; discriminate | intros env; unfold eqR; norm2 env; evR'; rewrite ?cos_neg, ?sin_neg; list_ring].
Lemma two_axis : Forall two_ok twos.
Proof. unfold twos. repeat (first [apply Forall_nil | apply Forall_cons; [unfold two_ok; fac |]]). Qed.
Lemma three_axis : Forall three_ok threes.
Proof. unfold threes. repeat (first [apply Forall_nil | apply Forall_cons; [unfold three_ok; fac |]]). Qed.
(* yawPitchRoll(yaw, pitch, roll) = Y(yaw) * X(pitch) * Z(roll) *)
Definition ypr_ok : Prop := forall env, eqR env (get "yawPitchRoll") (mat4_mul (mat4_mul (rotY 0) (rotX 1)) (rotZ 2)).
Lemma ypr_def : ypr_ok. Proof. intros env. unfold eqR; norm2 env; evR'; list_ring. Qed.
