(* C04 (continued): axis(q).  For a unit quaternion axis(q) is a unit vector for EVERY q: (0,0,1) when 1 - w^2 <= 0 (the identity
   and minus the identity, where the direction is arbitrary), and otherwise (x, y, z) / sqrt(1 - w^2), whose squared length is
   (x^2 + y^2 + z^2) / (1 - w^2) = 1.  The guard must include 1 - w^2 = 0: there the quotient does not exist. *)
Require Import ZArith List String Bool Reals Lra.
Import ListNotations.
From GLMV Require Import Expr SemR Cat.
From W Require Gen_C04.
Local Open Scope R_scope.
Definition qx (env : renv) := env F32 0%Z 0%Z. Definition qy (env : renv) := env F32 0%Z 1%Z. Definition qz (env : renv) := env F32 0%Z 2%Z. Definition qw (env : renv) := env F32 0%Z 3%Z.
Ltac ev := cbv [map evalT evalR evalRB binR unR cmpR cstR forallb Z.leb Z.ltb Z.compare Z.mul Z.pow Z.pow_pos Pos.iter Pos.mul Z.opp Z.abs].
Theorem axis_is_unit env : qx env * qx env + qy env * qy env + qz env * qz env + qw env * qw env = 1 ->
  exists a b c, evalT env Gen_C04.t_axis_q = Some (true, [a; b; c]) /\ a * a + b * b + c * c = 1 /\
    (1 - qw env * qw env <= 0 -> a = 0 /\ b = 0 /\ c = 1) /\
    (0 < 1 - qw env * qw env -> exists s, 0 < s /\ a = qx env * s /\ b = qy env * s /\ c = qz env * s).
Proof.
  unfold qx, qy, qz, qw. intros U. unfold Gen_C04.t_axis_q. ev. destruct (Rle_dec (1 - env F32 0%Z 3%Z * env F32 0%Z 3%Z) 0) as [Hle|Hgt].
  - eexists _, _, _. split; [reflexivity|]. split; [lra|]. split; [intros _; repeat split; lra|intros H; lra].
  - set (t := 1 - env F32 0%Z 3%Z * env F32 0%Z 3%Z) in *. assert (Ht : 0 < t) by lra. pose proof (sqrt_lt_R0 t Ht) as Hs. pose proof (sqrt_sqrt t (Rlt_le _ _ Ht)) as Hq.
    eexists _, _, _. split; [reflexivity|]. split.
    + set (s := sqrt t) in *. assert (E : env F32 0%Z 0%Z * env F32 0%Z 0%Z + env F32 0%Z 1%Z * env F32 0%Z 1%Z + env F32 0%Z 2%Z * env F32 0%Z 2%Z = s * s) by (rewrite Hq; unfold t; lra).
      transitivity ((env F32 0%Z 0%Z * env F32 0%Z 0%Z + env F32 0%Z 1%Z * env F32 0%Z 1%Z + env F32 0%Z 2%Z * env F32 0%Z 2%Z) * (1 / s) * (1 / s)); [ring|]. rewrite E. field. lra.
    + split; [intros H; lra|]. intros _. exists (1 / sqrt t). split; [apply Rdiv_lt_0_compat; lra|]. repeat split; reflexivity.
Qed.
