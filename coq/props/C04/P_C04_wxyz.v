(* C04: GLM_FORCE_QUAT_DATA_WXYZ changes no computed expression: the catalogue regenerated under that macro is
   identical (R1), entry by entry, to the default one. *)
Require Import ZArith List String Bool.
Import ListNotations.
From GLMV Require Import Expr Cat.
From W Require Gen_C04 Gen_C04_WXYZ.
Local Open Scope string_scope.
Fixpoint same_cat (a b : list (string * tree)) : bool :=
  match a, b with
  | [], [] => true
  | (n, t) :: a', (m, u) :: b' => String.eqb n m && tree_eqb t u && negb (has_abort t) && same_cat a' b'
  | _, _ => false
  end.
Lemma wxyz_same : same_cat Gen_C04.catalogue Gen_C04_WXYZ.catalogue = true /\ (60 <=? Z.of_nat (List.length Gen_C04.catalogue))%Z = true.
Proof. split; vm_compute; reflexivity. Qed.
