(* C04 (continued): the quaternion built from two vectors, qua(u, v), rotates u onto the direction of v:  (qua(u,v) * u) * |u||v| = v * |u|^2 for all
   non-zero u, v on the standard branch, and qua(u,v) * u = -u on the nearly-opposite branch (half-turn about an axis orthogonal to u).
   Real-number semantics; sqrt atoms are abstracted with their defining equations and the polynomial identities closed by nsatz. *)
Require Import ZArith List String Bool Reals Lra.
Import ListNotations.
From GLMV Require Import Expr SemR Cat.
From W Require Gen_C04.
Local Open Scope R_scope.
Ltac ev := cbv [map evalT evalR evalRB binR unR cmpR cstR forallb Z.leb Z.ltb Z.compare Z.mul Z.pow Z.pow_pos Pos.iter Pos.mul Z.opp Z.abs].
Ltac no_dec t := lazymatch t with context [Rle_dec _ _] => fail | context [Rlt_dec _ _] => fail | _ => idtac end.
Ltac split_dec := repeat (match goal with
  | |- context [Rle_dec ?a ?b] => no_dec a; no_dec b; destruct (Rle_dec a b)
  | |- context [Rlt_dec ?a ?b] => no_dec a; no_dec b; destruct (Rlt_dec a b)
  end; ev).
Definition U (env : renv) (i : Z) : R := env F32 0%Z i.
Definition V (env : renv) (i : Z) : R := env F32 1%Z i.
Definition uu env := U env 0 * U env 0 + U env 1 * U env 1 + U env 2 * U env 2.
Definition vv env := V env 0 * V env 0 + V env 1 * V env 1 + V env 2 * V env 2.
Definition uv env := U env 0 * V env 0 + U env 1 * V env 1 + U env 2 * V env 2.
Definition k6 : R := 8796093 / 8796093022208.   (* float(1e-6) *)
Definition nn env := sqrt (uu env * vv env).
(* both branches are inhabited: u = (1,0,0), v = (0,1,0) takes the standard one, v = -u the other *)
Lemma sqrt_is_1 t : t = 1 -> sqrt t = 1. Proof. intros ->. apply sqrt_1. Qed.
Example standard_branch_exists : exists env : renv, 0 < uu env /\ 0 < vv env /\ ~ (nn env + uv env < k6 * nn env).
Proof. exists (fun _ a i => if (Z.eqb a 0 && Z.eqb i 0)%bool then 1 else if (Z.eqb a 1 && Z.eqb i 1)%bool then 1 else 0). unfold nn, uu, vv, uv, U, V, k6. cbn.
  match goal with |- context [sqrt ?A] => assert (E : A = 1) by lra; rewrite (sqrt_is_1 A E) end. repeat split; lra. Qed.
Example opposite_branch_exists : exists env : renv, 0 < uu env /\ 0 < vv env /\ nn env + uv env < k6 * nn env.
Proof. exists (fun _ a i => if Z.eqb i 0 then (if Z.eqb a 0 then 1 else -1) else 0). unfold nn, uu, vv, uv, U, V, k6. cbn.
  match goal with |- context [sqrt ?A] => assert (E : A = 1) by lra; rewrite (sqrt_is_1 A E) end. repeat split; lra. Qed.
Require Import Nsatz.
Definition two_ok (t : tree) : Prop := forall env, 0 < uu env -> 0 < vv env -> ~ (nn env + uv env < k6 * nn env) ->
  exists r0 r1 r2, evalT env t = Some (true, [r0; r1; r2]) /\ r0 * nn env = V env 0 * uu env /\ r1 * nn env = V env 1 * uu env /\ r2 * nn env = V env 2 * uu env.
Theorem two_def : two_ok Gen_C04.t_two_vectors_rotate_u.
Proof.
  unfold two_ok, nn, k6, uu, vv, uv, U, V. intros env Hu Hv Hs. unfold Gen_C04.t_two_vectors_rotate_u. ev. unfold Rdiv in *.
  set (x := env F32 0%Z 0%Z) in *. set (y := env F32 0%Z 1%Z) in *. set (z := env F32 0%Z 2%Z) in *.
  set (a := env F32 1%Z 0%Z) in *. set (b := env F32 1%Z 1%Z) in *. set (c := env F32 1%Z 2%Z) in *.
  assert (P0 : 0 < (x * x + y * y + z * z) * (a * a + b * b + c * c)) by (apply Rmult_lt_0_compat; assumption).
  set (n := sqrt ((x * x + y * y + z * z) * (a * a + b * b + c * c))) in *.
  assert (N0 : 0 < n) by (apply sqrt_lt_R0; exact P0). assert (NN : n * n = (x * x + y * y + z * z) * (a * a + b * b + c * c)) by (apply sqrt_sqrt; apply Rlt_le; exact P0).
  match goal with |- context [Rlt_dec ?p ?q] => destruct (Rlt_dec p q) as [Hc|Hc] end; [exfalso; apply Hs; exact Hc|]. ev.
  assert (K0 : 0 < 8796093 * / 8796093022208 * n) by (apply Rmult_lt_0_compat; lra). assert (A0 : 0 < n + (x * a + y * b + z * c)) by lra.
  match goal with |- context [sqrt ?A] => set (L2 := A) end.
  assert (L0 : 0 < L2) by (unfold L2; match goal with |- 0 < ?p * ?p + ?q * ?q + (?r * ?r + ?s * ?s) => pose proof (Rmult_lt_0_compat p p A0 A0); pose proof (Rle_0_sqr q); pose proof (Rle_0_sqr r); pose proof (Rle_0_sqr s); unfold Rsqr in *; lra end).
  set (len := sqrt L2). assert (LL : len * len = L2) by (apply sqrt_sqrt; apply Rlt_le; exact L0). assert (Lp : 0 < len) by (apply sqrt_lt_R0; exact L0).
  destruct (Rle_dec len 0) as [Hl|Hl]; [exfalso; lra|]. ev.
  set (il := / len). assert (IL : il * len = 1) by (unfold il; apply Rinv_l; lra).
  eexists _, _, _. split; [reflexivity|]. unfold L2 in LL. clearbody il len n. clear - NN LL IL.
  repeat split; nsatz.
Qed.
Definition opp_ok (t : tree) : Prop := forall env, 0 < uu env -> 0 < vv env -> nn env + uv env < k6 * nn env ->
  evalT env t = Some (true, [- U env 0; - U env 1; - U env 2]).
Ltac lists tac := match goal with |- Some (true, ?l) = Some (true, ?r) => apply (f_equal (fun z : list R => Some (true, z))) end; repeat match goal with |- cons _ _ = cons _ _ => apply (f_equal2 (@cons R)); [tac|] | |- nil = nil => reflexivity end.
Theorem opp_def : opp_ok Gen_C04.t_two_vectors_rotate_u.
Proof.
  unfold opp_ok, nn, k6, uu, vv, uv, U, V. intros env Hu Hv Hs. unfold Gen_C04.t_two_vectors_rotate_u. ev. unfold Rdiv in *.
  set (x := env F32 0%Z 0%Z) in *. set (y := env F32 0%Z 1%Z) in *. set (z := env F32 0%Z 2%Z) in *.
  set (a := env F32 1%Z 0%Z) in *. set (b := env F32 1%Z 1%Z) in *. set (c := env F32 1%Z 2%Z) in *.
  set (n := sqrt ((x * x + y * y + z * z) * (a * a + b * b + c * c))) in *.
  match goal with |- context [Rlt_dec ?p ?q] => destruct (Rlt_dec p q) as [Hc|Hc] end; [|exfalso; apply Hc; exact Hs]. ev.
  clearbody n. clear Hs Hc Hv.
  assert (X2 := Rle_0_sqr x). assert (Y2 := Rle_0_sqr y). assert (Z2 := Rle_0_sqr z). unfold Rsqr in *.
  repeat (match goal with |- (if (if ?d then true else false) then _ else _) = _ => destruct d end; ev).
  all: try (exfalso; lra).
  all: try match goal with H : sqrt ?A <= 0 |- _ => exfalso; assert (L0 : 0 < A) by nra; pose proof (sqrt_lt_R0 A L0); lra end.
  all: match goal with |- context [sqrt ?A] => assert (L0 : 0 < A) by nra; pose proof (sqrt_lt_R0 A L0) as Lp; pose proof (sqrt_sqrt A (Rlt_le _ _ L0)) as LL; set (len := sqrt A) in *;
         set (il := / len); assert (IL : il * len = 1) by (unfold il; apply Rinv_l; lra); clearbody il len end.
  all: lists ltac:(clear - LL IL; nsatz).
Qed.
