(* C04: rotation by a quaternion, its matrix forms, products, inverse and conjugate agree (ring/field/nsatz on the
   regenerated traces).  Quaternion q = argument 0 with components x=0,y=1,z=2,w=3. *)
Require Import ZArith List String Bool Reals Lra.
Import ListNotations.
From GLMV Require Import Expr SemR Cat Comm Chk SpecLinAlg SpecProj SpecGeom.
From W Require Gen_C04.
Require Import Nsatz.
Local Open Scope string_scope.
Local Open Scope Z_scope.
Definition cat := Gen_C04.catalogue.
Ltac evR' := cbv [eqR map evalR evalRB binR unR cmpR cstR Z.leb Z.ltb Z.compare Z.mul Z.pow Z.pow_pos Pos.iter Pos.mul Z.opp Z.abs fst snd app].
Ltac norm2 env := repeat match goal with |- context [map (evalR env) ?a] => progress (let a' := eval vm_compute in a in change (map (evalR env) a) with (map (evalR env) a')) end.
Ltac normE env := repeat match goal with |- context [evalR env ?a] => progress (let a' := eval vm_compute in a in change (evalR env a) with (evalR env a')) end.
Ltac normH env H := repeat match type of H with context [evalR env ?a] => progress (let a' := eval vm_compute in a in change (evalR env a) with (evalR env a') in H) end;
  cbv [evalR binR unR cstR Z.leb Z.ltb Z.compare Z.mul Z.pow Z.pow_pos Pos.iter Pos.mul Z.opp Z.abs] in H.
Ltac list_nsatz := repeat (match goal with |- cons _ _ = cons _ _ => apply f_equal2; [ nsatz | ] | |- nil = nil => reflexivity end).
Ltac vmr := vm_compute; reflexivity.

Definition qv (a : Z) : list expr := vecv a 4.
Definition norm2_q (a : Z) : expr := dot_e (qv a) (qv a).
Definition mat3_vec (M v : list expr) : list expr :=
  map (fun r => eadd (eadd (emul (nth_e M r) (nth_e v 0)) (emul (nth_e M (3 + r)) (nth_e v 1))) (emul (nth_e M (6 + r)) (nth_e v 2))) (0 :: 1 :: 2 :: nil).
Definition mat3_mul (A Bm : list expr) : list expr := mm_gen (ec 0) eadd emul 3 3 3 (nth_e A) (nth_e Bm).
Definition get (n : string) : list expr := match outs_of cat n with Some o => o | None => nil end.
Definition present (ns : list string) : bool := forallb (fun n => match outs_of cat n with Some (_ :: _) => true | _ => false end) ns.

(* q*v = mat3_cast(q)*v for EVERY q and v (the two formulas are the same polynomial); q*vec4 keeps w;
   mat4_cast is the embedding of mat3_cast; gtx toMat3/toMat4/rotate(q,v) are the same expressions *)
Definition rot_ok : Prop :=
  present ("q_mul_v3" :: "q_mul_v4" :: "mat3_cast" :: "mat4_cast" :: "mat3_cast_mul_v3" :: "toMat3_gtx" :: "toMat4_gtx" :: "gtx_rotate_v3" :: nil) = true /\
  list_eqb (get "toMat3_gtx") (get "mat3_cast") = true /\ list_eqb (get "toMat4_gtx") (get "mat4_cast") = true /\ list_eqb (get "gtx_rotate_v3") (get "q_mul_v3") = true /\
  list_eqb (get "mat4_cast") (map (subst (fun k a i => nth_e (get "mat3_cast") i)) (convert_spec F32 4 4 3 3)) = true /\
  forall env, eqR env (get "q_mul_v3") (mat3_vec (get "mat3_cast") (vecv 1 3)) /\ eqR env (get "mat3_cast_mul_v3") (mat3_vec (get "mat3_cast") (vecv 1 3)) /\
              eqR env (get "q_mul_v4") (mat3_vec (get "mat3_cast") (vecv 1 3) ++ (V F32 1 3 :: nil)).
Lemma rot_def : rot_ok.
Proof. unfold rot_ok. repeat (split; [vmr|]). intros env. repeat split; unfold eqR; norm2 env; evR'; list_ring. Qed.

(* the matrix of a product is the product of the matrices, for unit quaternions *)
Definition prod_ok : Prop := present ("mat3_cast_of_product" :: nil) = true /\
  forall env, evalR env (norm2_q 0) = 1%R -> evalR env (norm2_q 1) = 1%R ->
    eqR env (get "mat3_cast_of_product") (mat3_mul (get "mat3_cast") (map (subst (fun k a i => V k 1 i)) (get "mat3_cast"))).
Lemma prod_def : prod_ok.
Proof. unfold prod_ok. split; [vmr|]. intros env H0 H1. normH env H0. normH env H1. unfold eqR; norm2 env; evR'. Time list_nsatz. Qed.

(* q * inverse(q) = identity for q <> 0;  inverse(q) = conjugate(q) / |q|^2, hence equal for unit q;
   the Hamilton product formula *)
Definition hamilton (a b : list expr) : list expr :=   (* x y z w *)
  let ax := nth_e a 0 in let ay := nth_e a 1 in let az := nth_e a 2 in let aw := nth_e a 3 in
  let bx := nth_e b 0 in let by_ := nth_e b 1 in let bz := nth_e b 2 in let bw := nth_e b 3 in
  (eadd (esub (eadd (emul aw bx) (emul ax bw)) (emul az by_)) (emul ay bz)) ::
  (eadd (esub (eadd (emul aw by_) (emul ay bw)) (emul ax bz)) (emul az bx)) ::
  (eadd (esub (eadd (emul aw bz) (emul az bw)) (emul ay bx)) (emul ax by_)) ::
  (esub (esub (esub (emul aw bw) (emul ax bx)) (emul ay by_)) (emul az bz)) :: nil.
Definition inv_ok : Prop := present ("q_mul_inverse" :: "inverse_q" :: "conjugate_q" :: "q_mul_q" :: nil) = true /\
  list_eqb (get "conjugate_q") (eneg (V F32 0 0) :: eneg (V F32 0 1) :: eneg (V F32 0 2) :: V F32 0 3 :: nil) = true /\
  forall env, eqR env (get "q_mul_q") (hamilton (qv 0) (qv 1)) /\
   (evalR env (norm2_q 0) <> 0%R ->
    eqR env (get "q_mul_inverse") (ec 0 :: ec 0 :: ec 0 :: ec 1 :: nil) /\
    eqR env (map (fun e => emul e (norm2_q 0)) (get "inverse_q")) (get "conjugate_q")) /\
   (evalR env (norm2_q 0) = 1%R -> eqR env (get "inverse_q") (get "conjugate_q")).
Ltac side_h := let H := fresh in intro H; match goal with Hd : ?d <> 0%R |- _ => apply Hd; rewrite <- H; ring end.
Ltac list_field_h := repeat (match goal with |- cons _ _ = cons _ _ => apply f_equal2; [ field; side_h | ] | |- nil = nil => reflexivity end).
Lemma inv_def : inv_ok.
Proof. unfold inv_ok. split; [vmr|]. split; [vmr|]. intros env. split; [unfold eqR; norm2 env; evR'; list_ring|]. split.
  - intros Hn. normH env Hn. split; unfold eqR; norm2 env; evR'; list_field_h.
  - intros Hn. normH env Hn. unfold eqR; norm2 env; evR'.
    repeat (match goal with |- cons _ _ = cons _ _ => apply f_equal2; [ | ] | |- nil = nil => reflexivity end);
    match goal with |- (?a / ?d)%R = _ => replace d with 1%R by (rewrite <- Hn; ring); field end.
Qed.
