(* C04 (continued): quat_cast(mat3_cast q) and quat_cast(mat4_cast q) are q or -q for EVERY unit quaternion, on every branch of the
   largest-of-four selection.  On the branch that selected component c the radicand fourBiggestSquaredMinus1 + 1 equals (2c)^2, the
   branch conditions force c^2 >= 1/4 (so c <> 0), sqrt((2c)^2) = 2|c|, and the remaining components are p * c / |c|. *)
Require Import ZArith List String Bool Reals Lra.
Import ListNotations.
From GLMV Require Import Expr SemR Cat.
From W Require Gen_C04.
Local Open Scope R_scope.
Definition qx (env : renv) := env F32 0%Z 0%Z. Definition qy (env : renv) := env F32 0%Z 1%Z. Definition qz (env : renv) := env F32 0%Z 2%Z. Definition qw (env : renv) := env F32 0%Z 3%Z.
Ltac ev := cbv [map evalT evalR evalRB binR unR cmpR cstR forallb Z.leb Z.ltb Z.compare Z.mul Z.pow Z.pow_pos Pos.iter Pos.mul Z.opp Z.abs].
Ltac no_dec t := lazymatch t with context [Rle_dec _ _] => fail | context [Rlt_dec _ _] => fail | _ => idtac end.
Ltac split_dec := repeat (match goal with
  | |- context [Rle_dec ?a ?b] => no_dec a; no_dec b; destruct (Rle_dec a b)
  | |- context [Rlt_dec ?a ?b] => no_dec a; no_dec b; destruct (Rlt_dec a b)
  end; ev).
Ltac lists tac := match goal with |- Some (true, ?l) = Some (true, ?r) => apply (f_equal (fun z : list R => Some (true, z))) end; repeat match goal with |- cons _ _ = cons _ _ => apply (f_equal2 (@cons R)); [tac|] | |- nil = nil => reflexivity end.
Lemma sqrt_4sq c A : A = (2 * c) * (2 * c) -> 0 < c -> sqrt A = 2 * c.
Proof. intros -> H. apply sqrt_square. lra. Qed.
Lemma sqrt_4sq_neg c A : A = (2 * c) * (2 * c) -> c < 0 -> sqrt A = - (2 * c).
Proof. intros -> H. replace (2 * c * (2 * c)) with ((- (2 * c)) * (- (2 * c))) by ring. apply sqrt_square. lra. Qed.
Definition cast_ok (t : tree) : Prop := forall env, qx env * qx env + qy env * qy env + qz env * qz env + qw env * qw env = 1 ->
  exists s, (s = 1 \/ s = -1) /\ evalT env t = Some (true, [s * qx env; s * qy env; s * qz env; s * qw env]).
Ltac with_comp c := match goal with |- context [sqrt ?A] =>
  assert (EA : A = (2 * c) * (2 * c)) by lra; assert (NZ : 1 <= 4 * (c * c)) by lra;
  destruct (Rlt_dec 0 c) as [P|P];
  [ exists 1; split; [left; reflexivity|]; rewrite (sqrt_4sq c A EA P)
  | assert (P' : c < 0) by (assert (c <> 0) by (let H0 := fresh in intro H0; rewrite H0 in NZ; lra); lra);
    exists (-1); split; [right; reflexivity|]; rewrite (sqrt_4sq_neg c A EA P') ];
  lists ltac:(field; lra) end.
Theorem cast3_def : cast_ok Gen_C04.t_quat_cast_of_mat3_cast.
Proof.
  unfold cast_ok, qx, qy, qz, qw. intros env U. unfold Gen_C04.t_quat_cast_of_mat3_cast. ev. unfold Rdiv.
  split_dec.
  all: first [with_comp (env F32 0%Z 0%Z) | with_comp (env F32 0%Z 1%Z) | with_comp (env F32 0%Z 2%Z) | with_comp (env F32 0%Z 3%Z)].
Qed.
Theorem cast4_def : cast_ok Gen_C04.t_quat_cast_of_mat4_cast.
Proof.
  unfold cast_ok, qx, qy, qz, qw. intros env U. unfold Gen_C04.t_quat_cast_of_mat4_cast. ev. unfold Rdiv.
  split_dec.
  all: first [with_comp (env F32 0%Z 0%Z) | with_comp (env F32 0%Z 1%Z) | with_comp (env F32 0%Z 2%Z) | with_comp (env F32 0%Z 3%Z)].
Qed.
(* the hypothesis is satisfiable, on a quaternion whose largest component is not w *)
Example unit_exists : exists env : renv, qx env * qx env + qy env * qy env + qz env * qz env + qw env * qw env = 1 /\ qw env < qy env.
Proof. exists (fun _ _ i => if Z.eqb i 1 then 4 / 5 else if Z.eqb i 3 then 3 / 5 else 0). unfold qx, qy, qz, qw. cbn. split; lra. Qed.
