(* C04 (continued): gtx derivedEulerAngleX / Y / Z(angle, angularVelocity) is angularVelocity times the derivative of eulerAngleX / Y / Z with respect to
   the angle, entry by entry (derivable_pt_lim of the standard library, discharged by Coquelicot's auto_derive); orientate2 / orientate3(angle) are the
   plane rotations. *)
Require Import ZArith List String Bool Reals Lra Lia.
From Coquelicot Require Import Coquelicot.
Import ListNotations.
From GLMV Require Import Expr SemR Cat.
From W Require Gen_C04.
Local Open Scope R_scope.
Definition envA (th w : R) : renv := fun _ _ i => if (i =? 0)%Z then th else w.
Definition outs (t : tree) (env : renv) : list R := match evalT env t with Some (_, l) => l | None => [] end.
Ltac ev := cbv [outs envA nth map evalT evalR evalRB binR unR cmpR cstR forallb Z.eqb Z.leb Z.ltb Z.compare Z.mul Z.pow Z.pow_pos Pos.iter Pos.mul Pos.eqb Z.opp Z.abs].
Definition derived_ok (t dt : tree) : Prop := forall th w (i : nat), (i < 16)%nat ->
  derivable_pt_lim (fun x => nth i (outs t (envA x 0)) 0) th (nth i (outs dt (envA th 1)) 0) /\
  nth i (outs dt (envA th w)) 0 = w * nth i (outs dt (envA th 1)) 0.
Ltac derived_tac := intros th w i Hi; do 16 (destruct i as [|i]; [ev; split; [auto_derive; [exact I | ring] | ring] |]); exfalso; lia.
Lemma derivedX : derived_ok Gen_C04.t_eulerAngleX Gen_C04.t_derivedEulerAngleX. Proof. unfold derived_ok, Gen_C04.t_eulerAngleX, Gen_C04.t_derivedEulerAngleX. derived_tac. Qed.
Lemma derivedY : derived_ok Gen_C04.t_eulerAngleY Gen_C04.t_derivedEulerAngleY. Proof. unfold derived_ok, Gen_C04.t_eulerAngleY, Gen_C04.t_derivedEulerAngleY. derived_tac. Qed.
Lemma derivedZ : derived_ok Gen_C04.t_eulerAngleZ Gen_C04.t_derivedEulerAngleZ. Proof. unfold derived_ok, Gen_C04.t_eulerAngleZ, Gen_C04.t_derivedEulerAngleZ. derived_tac. Qed.
Definition orientate_ok : Prop := forall th, outs Gen_C04.t_orientate2 (envA th 0) = [cos th; sin th; - sin th; cos th] /\
  outs Gen_C04.t_orientate3_s (envA th 0) = [cos th; sin th; 0; - sin th; cos th; 0; 0; 0; 1].
Lemma orientate_def : orientate_ok. Proof. intros th. unfold Gen_C04.t_orientate2, Gen_C04.t_orientate3_s. ev. split; repeat (f_equal; try lra). Qed.
