(* Properties_C08.v -- C08: projection builders map the view volume onto the configured clip volume.
   Statements only; proofs are `exact <lemma>` from P_C08_*.v, checked against the models regenerated from
   /repo on this run under the four clip-control configurations (W.Gen_C08 = default RH/NO,
   W.Gen_C08_LHNO, W.Gen_C08_RHZO, W.Gen_C08_LHZO).  Predicates are defined in A_C08_defs.v /
   P_C08_*.v on top of SpecProj.v (corners, conventions).  Values are universally quantified reals
   (evalR of the traced float expression); hypotheses are the non-degeneracy of the parameters. *)
Require Import ZArith List String Bool Reals.
Import ListNotations.
From GLMV Require Import Expr SemR Cat Comm Chk SpecLinAlg SpecProj.
From W Require Gen_C08 Gen_C08_LHNO Gen_C08_RHZO Gen_C08_LHZO A_C08_defs P_C08_ortho_frustum P_C08_perspective P_C08_dispatch P_C08_project P_C08_ivp.
Import A_C08_defs.
Local Open Scope string_scope.
Definition cat := Gen_C08.catalogue.

(* left/right/bottom/top -> x,y = -1/+1; near -> -1 (NO) or 0 (ZO); far -> +1; RH looks down -z, LH down +z *)
Theorem C08_orthoRH_NO : ortho_ok cat "orthoRH_NO" RH NO. Proof. exact P_C08_ortho_frustum.orthoRH_NO. Qed.
Theorem C08_orthoRH_ZO : ortho_ok cat "orthoRH_ZO" RH ZO. Proof. exact P_C08_ortho_frustum.orthoRH_ZO. Qed.
Theorem C08_orthoLH_NO : ortho_ok cat "orthoLH_NO" LH NO. Proof. exact P_C08_ortho_frustum.orthoLH_NO. Qed.
Theorem C08_orthoLH_ZO : ortho_ok cat "orthoLH_ZO" LH ZO. Proof. exact P_C08_ortho_frustum.orthoLH_ZO. Qed.
Theorem C08_frustumRH_NO : frustum_ok cat "frustumRH_NO" RH NO. Proof. exact P_C08_ortho_frustum.frustumRH_NO. Qed.
Theorem C08_frustumRH_ZO : frustum_ok cat "frustumRH_ZO" RH ZO. Proof. exact P_C08_ortho_frustum.frustumRH_ZO. Qed.
Theorem C08_frustumLH_NO : frustum_ok cat "frustumLH_NO" LH NO. Proof. exact P_C08_ortho_frustum.frustumLH_NO. Qed.
Theorem C08_frustumLH_ZO : frustum_ok cat "frustumLH_ZO" LH ZO. Proof. exact P_C08_ortho_frustum.frustumLH_ZO. Qed.
(* perspective = symmetric frustum (so it inherits the corner theorems) *)
Theorem C08_perspectiveRH_NO : P_C08_perspective.persp_ok "perspectiveRH_NO" "frustumRH_NO". Proof. exact P_C08_perspective.perspRH_NO. Qed.
Theorem C08_perspectiveRH_ZO : P_C08_perspective.persp_ok "perspectiveRH_ZO" "frustumRH_ZO". Proof. exact P_C08_perspective.perspRH_ZO. Qed.
Theorem C08_perspectiveLH_NO : P_C08_perspective.persp_ok "perspectiveLH_NO" "frustumLH_NO". Proof. exact P_C08_perspective.perspLH_NO. Qed.
Theorem C08_perspectiveLH_ZO : P_C08_perspective.persp_ok "perspectiveLH_ZO" "frustumLH_ZO". Proof. exact P_C08_perspective.perspLH_ZO. Qed.
(* perspectiveFov = perspective with aspect = width/height *)
Theorem C08_perspectiveFovRH_NO : P_C08_perspective.fov_ok "perspectiveFovRH_NO" "perspectiveRH_NO". Proof. exact P_C08_perspective.fovRH_NO. Qed.
Theorem C08_perspectiveFovRH_ZO : P_C08_perspective.fov_ok "perspectiveFovRH_ZO" "perspectiveRH_ZO". Proof. exact P_C08_perspective.fovRH_ZO. Qed.
Theorem C08_perspectiveFovLH_NO : P_C08_perspective.fov_ok "perspectiveFovLH_NO" "perspectiveLH_NO". Proof. exact P_C08_perspective.fovLH_NO. Qed.
Theorem C08_perspectiveFovLH_ZO : P_C08_perspective.fov_ok "perspectiveFovLH_ZO" "perspectiveLH_ZO". Proof. exact P_C08_perspective.fovLH_ZO. Qed.
(* infinitePerspective: depth of a point at distance d is 1 - 2n/d (NO) or 1 - n/d (ZO): near -> -1|0, infinity -> 1 *)
Theorem C08_infinitePerspectiveRH_NO : P_C08_perspective.inf_ok "infinitePerspectiveRH_NO" RH NO. Proof. exact P_C08_perspective.infRH_NO. Qed.
Theorem C08_infinitePerspectiveRH_ZO : P_C08_perspective.inf_ok "infinitePerspectiveRH_ZO" RH ZO. Proof. exact P_C08_perspective.infRH_ZO. Qed.
Theorem C08_infinitePerspectiveLH_NO : P_C08_perspective.inf_ok "infinitePerspectiveLH_NO" LH NO. Proof. exact P_C08_perspective.infLH_NO. Qed.
Theorem C08_infinitePerspectiveLH_ZO : P_C08_perspective.inf_ok "infinitePerspectiveLH_ZO" LH ZO. Proof. exact P_C08_perspective.infLH_ZO. Qed.
(* the unsuffixed / half-suffixed functions ARE the variant selected by the configuration macros *)
Theorem C08_dispatch_RH_NO : P_C08_dispatch.dispatch_ok Gen_C08.catalogue "RH" "NO" = true. Proof. exact P_C08_dispatch.dispatch_RH_NO. Qed.
Theorem C08_dispatch_LH_NO : P_C08_dispatch.dispatch_ok Gen_C08_LHNO.catalogue "LH" "NO" = true. Proof. exact P_C08_dispatch.dispatch_LH_NO. Qed.
Theorem C08_dispatch_RH_ZO : P_C08_dispatch.dispatch_ok Gen_C08_RHZO.catalogue "RH" "ZO" = true. Proof. exact P_C08_dispatch.dispatch_RH_ZO. Qed.
Theorem C08_dispatch_LH_ZO : P_C08_dispatch.dispatch_ok Gen_C08_LHZO.catalogue "LH" "ZO" = true. Proof. exact P_C08_dispatch.dispatch_LH_ZO. Qed.
Theorem C08_suffixed_config_independent :
  P_C08_dispatch.same_across Gen_C08.catalogue Gen_C08_LHNO.catalogue && P_C08_dispatch.same_across Gen_C08.catalogue Gen_C08_RHZO.catalogue
  && P_C08_dispatch.same_across Gen_C08.catalogue Gen_C08_LHZO.catalogue = true.
Proof. exact P_C08_dispatch.config_independent. Qed.
(* project sends clip coordinates to the viewport rectangle and the depth range of its convention *)
Theorem C08_projectNO_viewport : P_C08_project.project_ok "projectNO_m1" NO. Proof. exact P_C08_project.projectNO_viewport. Qed.
Theorem C08_projectZO_viewport : P_C08_project.project_ok "projectZO_m1" ZO. Proof. exact P_C08_project.projectZO_viewport. Qed.
(* integer viewports: project / unProject / pickMatrix are the floating-viewport functions applied to static_cast<T> of each viewport component *)
Theorem C08_integer_viewport_is_cast_componentwise :
  forallb (P_C08_ivp.ivp_same 3) ["projectZO"; "projectNO"; "unProjectZO"; "unProjectNO"] && P_C08_ivp.ivp_same 2 "pickMatrix" = true.
Proof. exact P_C08_ivp.integer_viewport. Qed.

(* non-vacuity: the non-degeneracy hypotheses are satisfiable (l,r,b,t,n,f = 0,1,2,3,4,5) *)
Example C08_hyps_satisfiable : let env : renv := fun _ _ i => IZR i in
  nz env (esub (p 1) (p 0)) /\ nz env (esub (p 3) (p 2)) /\ nz env (esub (p 5) (p 4)) /\ nz env (p 4).
Proof. cbv [nz p esub k32 evalR binR]. repeat split; apply not_eq_sym, Rlt_not_eq; try (apply IZR_lt; reflexivity);
  match goal with |- (0 < IZR ?a - IZR ?b)%R => rewrite <- minus_IZR; apply IZR_lt; reflexivity end. Qed.

Print Assumptions C08_orthoRH_NO.
Print Assumptions C08_frustumLH_ZO.
Print Assumptions C08_perspectiveRH_NO.
Print Assumptions C08_perspectiveFovLH_ZO.
Print Assumptions C08_infinitePerspectiveRH_NO.
Print Assumptions C08_dispatch_LH_ZO.
Print Assumptions C08_suffixed_config_independent.
Print Assumptions C08_projectNO_viewport.
