(* C08: project / unProject / pickMatrix with an INTEGER viewport (the documented template parameter U): the viewport enters only through
   static_cast<T>(viewport[i]) of each component, i.e. the integer-viewport function is the floating one with every viewport component v_i replaced
   by T(v_i) -- identity of the regenerated expression trees.  (No arithmetic happens in the integer type: halving an odd width there would truncate.) *)
Require Import ZArith List String Bool.
Import ListNotations.
From GLMV Require Import Expr Cat.
From W Require Gen_C08.
Local Open Scope string_scope.
Local Open Scope Z_scope.
Definition cat := Gen_C08.catalogue.
Definition sigma (vparg : Z) (k : kind) (a i : Z) : expr := if kind_eqb k F32 && (a =? vparg) then Cv F32 I32 (V I32 a i) else V k a i.
Definition ivp_same (vparg : Z) (nm : string) : bool :=
  match lookup nm cat, lookup (nm ++ "_ivp") cat with Some t, Some ti => tree_eqb ti (subst_tree (sigma vparg) t) && negb (has_abort ti) | _, _ => false end.
Lemma integer_viewport : forallb (ivp_same 3) ["projectZO"; "projectNO"; "unProjectZO"; "unProjectNO"] && ivp_same 2 "pickMatrix" = true.
Proof. vm_compute. reflexivity. Qed.
