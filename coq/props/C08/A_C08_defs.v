(* C08 definitions and tactics shared by the proof files. *)
Require Import ZArith List String Bool Reals Lra.
Import ListNotations.
From GLMV Require Import Expr SemR Cat Comm Chk SpecLinAlg SpecProj.
Local Open Scope string_scope.
Local Open Scope Z_scope.

Definition p (i : Z) : expr := V F32 0 i.
Definition nz (env : renv) (e : expr) : Prop := evalR env e <> 0%R.

(* ortho(l,r,b,t,n,f) / frustum(l,r,b,t,n,f): parameters are components 0..5 of argument 0 *)
Definition ortho_corners h z := corners h z (fun _ => p 0) (fun _ => p 1) (fun _ => p 2) (fun _ => p 3) (p 4) (p 5).
Definition frustum_corners h z := corners h z (fun d => ediv (emul (p 0) d) (p 4)) (fun d => ediv (emul (p 1) d) (p 4))
                                               (fun d => ediv (emul (p 2) d) (p 4)) (fun d => ediv (emul (p 3) d) (p 4)) (p 4) (p 5).
Definition w_one (pt : list expr) : expr := ec 1.
Definition w_dist (h : hand) (pt : list expr) : expr := match h with RH => eneg (nth_e pt 2) | LH => nth_e pt 2 end.

Definition ortho_ok (cat : list (string * tree)) (nm : string) (h : hand) (z : depth) : Prop :=
  exists P, outs_of cat nm = Some P /\ forallb realok P = true /\
    forall env, nz env (esub (p 1) (p 0)) -> nz env (esub (p 3) (p 2)) -> nz env (esub (p 5) (p 4)) ->
      Forall (fun c => holdsR env (corner_goals P w_one c)) (ortho_corners h z).
Definition frustum_ok (cat : list (string * tree)) (nm : string) (h : hand) (z : depth) : Prop :=
  exists P, outs_of cat nm = Some P /\ forallb realok P = true /\
    forall env, nz env (esub (p 1) (p 0)) -> nz env (esub (p 3) (p 2)) -> nz env (esub (p 5) (p 4)) -> nz env (p 4) ->
      Forall (fun c => holdsR env (corner_goals P (w_dist h) c)) (frustum_corners h z).

(* discharge a field side condition  x <> 0  from a hypothesis  d <> 0  with d = +-x *)
(* x = 0 -> False from d <> 0 when x = c * d for a small constant c *)
Ltac side_c x Hd H c := apply Hd; apply (Rmult_eq_reg_l c); [ rewrite Rmult_0_r; rewrite <- H; ring | lra ].
Ltac side_try x Hd H := first [ side_c x Hd H 1%R | side_c x Hd H (-1)%R | side_c x Hd H 2%R | side_c x Hd H (-2)%R | side_c x Hd H 4%R | side_c x Hd H (-4)%R ].
Ltac side1 := let H := fresh in intro H; match type of H with ?x = _ =>
  match goal with Hd : ?d <> 0%R |- _ => side_try x Hd H end end.
(* products of non-zero hypotheses are non-zero (asserted explicitly where a proof needs them) *)
Ltac nzprod2 Ha Hb := match type of Ha with ?a <> _ => match type of Hb with ?b <> _ =>
  assert ((a * b)%R <> 0%R) by (apply Rmult_integral_contrapositive_currified; assumption) end end.
Ltac nzprod3 Ha Hb Hc := match type of Ha with ?a <> _ => match type of Hb with ?b <> _ => match type of Hc with ?c <> _ =>
  assert ((a * b * c)%R <> 0%R) by (apply Rmult_integral_contrapositive_currified; [apply Rmult_integral_contrapositive_currified|]; assumption) end end end.
Ltac sides := repeat match goal with |- _ /\ _ => split end; side1.
Ltac evR' := cbv [map evalR evalRB binR unR cmpR cstR Z.leb Z.ltb Z.compare Z.mul Z.pow Z.pow_pos Pos.iter Pos.mul Z.opp Z.abs fst snd].
Ltac evR_in H := cbv [evalR evalRB binR unR cmpR cstR Z.leb Z.ltb Z.compare Z.mul Z.pow Z.pow_pos Pos.iter Pos.mul Z.opp Z.abs fst snd] in H.
Ltac norm_hyps := repeat match goal with H : nz ?env ?e |- _ => unfold nz in H; let e' := eval vm_compute in e in change (evalR env e' <> 0%R) in H; evR_in H end.
Ltac all_goals := repeat (first [apply Forall_nil | apply Forall_cons; [ unfold holdsR; repeat (first [apply Forall_nil | apply Forall_cons; [ evR'; try (field; sides) | ]]) | ]]).
Ltac corner_tac := eexists; split; [vm_compute; reflexivity | split; [vm_compute; reflexivity |
  intros env; intros; norm_hyps;
  match goal with |- Forall _ ?cs => let cs' := eval vm_compute in cs in change cs with cs' end;
  repeat (first [apply Forall_nil | apply Forall_cons; [
     match goal with |- holdsR _ ?g => let g' := eval vm_compute in g in change g with g' end;
     unfold holdsR; repeat (first [apply Forall_nil | apply Forall_cons; [ evR'; field; sides | ]]) | ]])]].
