(* C08: the unsuffixed and half-suffixed builders are exactly (identical expression trees, R1) the variant
   selected by GLM_FORCE_LEFT_HANDED / GLM_FORCE_DEPTH_ZERO_TO_ONE, in each of the four configurations;
   the fully suffixed variants do not depend on the configuration. *)
Require Import ZArith List String Bool.
Import ListNotations.
From GLMV Require Import Expr Cat.
From W Require Gen_C08 Gen_C08_LHNO Gen_C08_RHZO Gen_C08_LHZO.
Local Open Scope string_scope.

Definition same (cat : list (string * tree)) (a b : string) : bool :=
  match lookup a cat, lookup b cat with Some x, Some y => tree_eqb x y && negb (has_abort x) | _, _ => false end.
Definition families := ["ortho"; "frustum"; "perspective"; "perspectiveFov"].
(* h = "LH"/"RH", z = "ZO"/"NO" : the configured handedness and depth range *)
Definition dispatch_ok (cat : list (string * tree)) (h z : string) : bool :=
  forallb (fun f => same cat f (f ++ h ++ "_" ++ z) && same cat (f ++ "LH") (f ++ "LH_" ++ z) && same cat (f ++ "RH") (f ++ "RH_" ++ z)
                    && same cat (f ++ "ZO") (f ++ h ++ "_ZO") && same cat (f ++ "NO") (f ++ h ++ "_NO")) families
  && same cat "infinitePerspective" ("infinitePerspective" ++ h ++ "_" ++ z)
  && same cat "project" ("project" ++ z) && same cat "unProject" ("unProject" ++ z).

Lemma dispatch_RH_NO : dispatch_ok Gen_C08.catalogue "RH" "NO" = true. Proof. vm_compute. reflexivity. Qed.
Lemma dispatch_LH_NO : dispatch_ok Gen_C08_LHNO.catalogue "LH" "NO" = true. Proof. vm_compute. reflexivity. Qed.
Lemma dispatch_RH_ZO : dispatch_ok Gen_C08_RHZO.catalogue "RH" "ZO" = true. Proof. vm_compute. reflexivity. Qed.
Lemma dispatch_LH_ZO : dispatch_ok Gen_C08_LHZO.catalogue "LH" "ZO" = true. Proof. vm_compute. reflexivity. Qed.

Definition suffixed : list string :=
  flat_map (fun f => map (fun s => f ++ s) ["LH_ZO"; "LH_NO"; "RH_ZO"; "RH_NO"]) (families ++ ["infinitePerspective"])
  ++ ["projectZO"; "projectNO"; "unProjectZO"; "unProjectNO"; "pickMatrix"].
Definition same_across (c1 c2 : list (string * tree)) : bool :=
  forallb (fun n => match lookup n c1, lookup n c2 with Some x, Some y => tree_eqb x y | _, _ => false end) suffixed.
Lemma config_independent : same_across Gen_C08.catalogue Gen_C08_LHNO.catalogue && same_across Gen_C08.catalogue Gen_C08_RHZO.catalogue
                           && same_across Gen_C08.catalogue Gen_C08_LHZO.catalogue = true.
Proof. vm_compute. reflexivity. Qed.
