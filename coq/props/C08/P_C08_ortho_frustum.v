(* C08: ortho and frustum (four fully suffixed variants each) map the corners of their view volume
   onto the corners of the clip cube of their convention (field on the regenerated traces). *)
Require Import ZArith List String Bool Reals Lra.
Import ListNotations.
From GLMV Require Import Expr SemR Cat Comm Chk SpecLinAlg SpecProj.
From W Require Gen_C08.
From W Require Import A_C08_defs.
Local Open Scope string_scope.
Local Open Scope Z_scope.
Definition cat := Gen_C08.catalogue.
Lemma orthoRH_NO : ortho_ok cat "orthoRH_NO" RH NO. Proof. unfold ortho_ok. Time corner_tac. Qed.
Lemma orthoRH_ZO : ortho_ok cat "orthoRH_ZO" RH ZO. Proof. unfold ortho_ok. corner_tac. Qed.
Lemma orthoLH_NO : ortho_ok cat "orthoLH_NO" LH NO. Proof. unfold ortho_ok. corner_tac. Qed.
Lemma orthoLH_ZO : ortho_ok cat "orthoLH_ZO" LH ZO. Proof. unfold ortho_ok. corner_tac. Qed.
Lemma frustumRH_NO : frustum_ok cat "frustumRH_NO" RH NO. Proof. unfold frustum_ok. Time corner_tac. Qed.
Lemma frustumRH_ZO : frustum_ok cat "frustumRH_ZO" RH ZO. Proof. unfold frustum_ok. corner_tac. Qed.
Lemma frustumLH_NO : frustum_ok cat "frustumLH_NO" LH NO. Proof. unfold frustum_ok. corner_tac. Qed.
Lemma frustumLH_ZO : frustum_ok cat "frustumLH_ZO" LH ZO. Proof. unfold frustum_ok. corner_tac. Qed.
