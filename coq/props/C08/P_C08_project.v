(* C08: project maps clip coordinates to the viewport rectangle and depth range [0,1] of its depth convention:
   with clip = PM * (obj,1):  win.xy = viewport.xy + viewport.zw * (clip.xy/clip.w + 1)/2,
   win.z = (clip.z/clip.w + 1)/2 (NO)  |  clip.z/clip.w (ZO). *)
Require Import ZArith List String Bool Reals Lra.
Import ListNotations.
From GLMV Require Import Expr SemR Cat Comm Chk SpecLinAlg SpecProj.
From W Require Gen_C08.
From W Require Import A_C08_defs.
Local Open Scope string_scope.
Local Open Scope Z_scope.
Definition cat := Gen_C08.catalogue.
Definition PM : list expr := map (fun i => V F32 2 i) (zseq 16).
Definition obj4 : list expr := [V F32 0 0; V F32 0 1; V F32 0 2; ec 1].
Definition clip := mat_vec4 PM obj4.
Definition half_up (e : expr) := ediv (eadd e (ec 1)) (ec 2).
Definition project_spec (z : depth) : list expr :=
  let w := nth_e clip 3 in
  [eadd (V F32 3 0) (emul (V F32 3 2) (half_up (ediv (nth_e clip 0) w)));
   eadd (V F32 3 1) (emul (V F32 3 3) (half_up (ediv (nth_e clip 1) w)));
   match z with NO => half_up (ediv (nth_e clip 2) w) | ZO => ediv (nth_e clip 2) w end].
Definition project_ok (nm : string) (z : depth) : Prop :=
  exists outs, outs_any cat nm = Some outs /\ forallb realok outs = true /\
    forall env, nz env (nth_e clip 3) -> map (evalR env) outs = map (evalR env) (project_spec z).
Ltac norm2 env := repeat match goal with |- context [map (evalR env) ?a] => progress (let a' := eval vm_compute in a in change (map (evalR env) a) with (map (evalR env) a')) end.
Ltac proj_tac := eexists; split; [vm_compute; reflexivity | split; [vm_compute; reflexivity |
  intros env Hw; norm_hyps; norm2 env; evR'; repeat (match goal with |- cons _ _ = cons _ _ => apply f_equal2; [ field; sides | ] | |- nil = nil => reflexivity end)]].
Lemma projectNO_viewport : project_ok "projectNO_m1" NO. Proof. unfold project_ok. Time proj_tac. Qed.
Lemma projectZO_viewport : project_ok "projectZO_m1" ZO. Proof. unfold project_ok. Time proj_tac. Qed.
