(* C08: perspective = symmetric frustum; perspectiveFov = perspective with aspect = width/height;
   infinitePerspective maps the near plane to -1|0 and every depth d to 1 - 2n/d | 1 - n/d (-> 1). *)
Require Import ZArith List String Bool Reals Lra.
Import ListNotations.
From GLMV Require Import Expr SemR Cat Comm Chk SpecLinAlg SpecProj.
From W Require Gen_C08.
From W Require Import A_C08_defs.
Local Open Scope string_scope.
Local Open Scope Z_scope.
Definition cat := Gen_C08.catalogue.

(* perspective(fovy, aspect, n, f): t = tan(fovy/2) *)
Definition tanhalf (fovy : expr) : expr := U Tan F32 (ediv fovy (ec 2)).
(* substitution turning frustum(l,r,b,t,n,f) into the symmetric frustum of perspective(fovy=p0, aspect=p1, n=p2, f=p3) *)
Definition sym_frustum (k : kind) (a i : Z) : expr :=
  let t := tanhalf (p 0) in let n := p 2 in
  match i with
  | 0 => eneg (emul (emul (p 1) n) t) | 1 => emul (emul (p 1) n) t
  | 2 => eneg (emul n t) | 3 => emul n t | 4 => n | _ => p 3 end.
Definition persp_ok (pn fn : string) : Prop :=
  exists P F, outs_any cat pn = Some P /\ outs_any cat fn = Some F /\ forallb realok P = true /\
    forall env, nz env (p 1) -> nz env (tanhalf (p 0)) -> nz env (esub (p 3) (p 2)) -> nz env (p 2) ->
      map (evalR env) P = map (evalR env) (map (subst sym_frustum) F).
(* perspectiveFov(fov=p0, width=p1, height=p2, n=p3, f=p4) = perspective(fov, width/height, n, f) *)
Definition fov_subst (k : kind) (a i : Z) : expr :=
  match i with 0 => p 0 | 1 => ediv (p 1) (p 2) | 2 => p 3 | _ => p 4 end.
Definition fov_ok (vn pn : string) : Prop :=
  exists Vv P, outs_any cat vn = Some Vv /\ outs_any cat pn = Some P /\ forallb realok Vv = true /\
    forall env, nz env (p 1) -> nz env (p 2) -> nz env (esub (p 4) (p 3)) ->
      nz env (U Sin F32 (ediv (p 0) (ec 2))) -> nz env (U Cos F32 (ediv (p 0) (ec 2))) ->
      map (evalR env) Vv = map (evalR env) (map (subst fov_subst) P).

Lemma half_mul x : (1 / 2 * x = x / 2)%R. Proof. field. Qed.
Ltac norm2 env := repeat match goal with |- context [map (evalR env) ?a] => progress (let a' := eval vm_compute in a in change (map (evalR env) a) with (map (evalR env) a')) end.
Ltac list_field_sides := repeat (match goal with |- cons _ _ = cons _ _ => apply f_equal2; [ try reflexivity; field; sides | ] | |- nil = nil => reflexivity end).
Ltac persp_tac := eexists; eexists; split; [vm_compute; reflexivity | split; [vm_compute; reflexivity | split; [vm_compute; reflexivity |
   intros env Ha Ht Hd Hn; norm_hyps; nzprod2 Hn Ht; nzprod3 Ha Hn Ht; norm2 env; evR'; list_field_sides]]].
Lemma perspRH_NO : persp_ok "perspectiveRH_NO" "frustumRH_NO". Proof. unfold persp_ok. Time persp_tac. Qed.
Lemma perspRH_ZO : persp_ok "perspectiveRH_ZO" "frustumRH_ZO". Proof. unfold persp_ok. persp_tac. Qed.
Lemma perspLH_NO : persp_ok "perspectiveLH_NO" "frustumLH_NO". Proof. unfold persp_ok. persp_tac. Qed.
Lemma perspLH_ZO : persp_ok "perspectiveLH_ZO" "frustumLH_ZO". Proof. unfold persp_ok. persp_tac. Qed.

Ltac fov_tac := eexists; eexists; split; [vm_compute; reflexivity | split; [vm_compute; reflexivity | split; [vm_compute; reflexivity |
   intros env Hw Hh Hd Hs Hc; norm_hyps; nzprod2 Hw Hs; nzprod2 Hh Hs; nzprod2 Hw Hc; norm2 env; evR'; unfold tan; rewrite ?half_mul; list_field_sides]]].
Lemma fovRH_NO : fov_ok "perspectiveFovRH_NO" "perspectiveRH_NO". Proof. unfold fov_ok. Time fov_tac. Qed.
Lemma fovRH_ZO : fov_ok "perspectiveFovRH_ZO" "perspectiveRH_ZO". Proof. unfold fov_ok. fov_tac. Qed.
Lemma fovLH_NO : fov_ok "perspectiveFovLH_NO" "perspectiveLH_NO". Proof. unfold fov_ok. fov_tac. Qed.
Lemma fovLH_ZO : fov_ok "perspectiveFovLH_ZO" "perspectiveLH_ZO". Proof. unfold fov_ok. fov_tac. Qed.

(* infinitePerspective(fovy=p0, aspect=p1, near=p2); d = p3 is an arbitrary distance along the view direction.
   The point (sx*aspect*d*t, sy*d*t, -+d) on the boundary of the view pyramid maps to clip (sx*d, sy*d, d-2n | d-n, d). *)
Definition inf_goals (P : list expr) (h : hand) (z : depth) : list (expr * expr) :=
  let t := tanhalf (p 0) in let d := p 3 in
  flat_map (fun sx => flat_map (fun sy =>
    let clip := mat_vec4 P [emul (ec sx) (emul (emul (p 1) d) t); emul (ec sy) (emul d t); zview h d; ec 1] in
    [(nth_e clip 0, emul (ec sx) d); (nth_e clip 1, emul (ec sy) d);
     (nth_e clip 2, match z with NO => esub d (emul (ec 2) (p 2)) | ZO => esub d (p 2) end); (nth_e clip 3, d)]) [-1; 1]) [-1; 1].
Definition inf_ok (nm : string) (h : hand) (z : depth) : Prop :=
  exists P, outs_any cat nm = Some P /\ forallb realok P = true /\
    forall env, nz env (p 1) -> nz env (tanhalf (p 0)) -> nz env (p 2) -> holdsR env (inf_goals P h z).
Ltac inf_tac := eexists; split; [vm_compute; reflexivity | split; [vm_compute; reflexivity |
  intros env Ha Ht Hn; norm_hyps; nzprod2 Ht Hn; nzprod3 Ht Hn Ha; match goal with |- holdsR _ ?g => let g' := eval vm_compute in g in change g with g' end;
  unfold holdsR; repeat (first [apply Forall_nil | apply Forall_cons; [ evR'; field; sides | ]])]].
Lemma infRH_NO : inf_ok "infinitePerspectiveRH_NO" RH NO. Proof. unfold inf_ok. Time inf_tac. Qed.
Lemma infRH_ZO : inf_ok "infinitePerspectiveRH_ZO" RH ZO. Proof. unfold inf_ok. inf_tac. Qed.
Lemma infLH_NO : inf_ok "infinitePerspectiveLH_NO" LH NO. Proof. unfold inf_ok. inf_tac. Qed.
Lemma infLH_ZO : inf_ok "infinitePerspectiveLH_ZO" LH ZO. Proof. unfold inf_ok. inf_tac. Qed.
