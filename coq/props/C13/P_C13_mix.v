(* C13 (continued): gtx shortMix and fastMix.
   shortMix(x, y, a): x for a <= 0 and y for a >= 1 exactly (the end-point rule); in between, with c = dot(x, y), y is replaced by -y and c by
   -c when c < 0 (shorter arc), and the result is the affine blend when c > 1 - epsilon, else the spherical formula with
   angle = atan2(sqrt(1 - c^2), c).   fastMix(x, y, a) = normalize(x (1 - a) + y a) (identity for a zero blend). *)
Require Import ZArith List String Bool Reals Lra.
Import ListNotations.
From GLMV Require Import Expr SemR Cat.
From W Require Gen_C13.
Local Open Scope string_scope.
Local Open Scope Z_scope.
Definition cat := Gen_C13.catalogue.
Definition X (env : renv) (i : Z) : R := env F32 0 i.
Definition Y (env : renv) (i : Z) : R := env F32 1 i.
Definition a_ (env : renv) : R := env F32 2 0.
Local Open Scope R_scope.
Ltac ev := cbv [map evalT evalR evalRB binR unR cmpR cstR forallb Z.leb Z.ltb Z.compare Z.mul Z.pow Z.pow_pos Pos.iter Pos.mul Z.opp Z.abs].
Ltac no_dec t := lazymatch t with context [Rle_dec _ _] => fail | context [Rlt_dec _ _] => fail | _ => idtac end.
Ltac split_dec := repeat (match goal with
  | |- context [Rle_dec ?a ?b] => no_dec a; no_dec b; destruct (Rle_dec a b)
  | |- context [Rlt_dec ?a ?b] => no_dec a; no_dec b; destruct (Rlt_dec a b)
  end; ev).
Ltac lists tac := match goal with |- Some (true, ?l) = Some (true, ?r) => apply (f_equal (fun z : list R => Some (true, z))) end; repeat match goal with |- cons _ _ = cons _ _ => apply (f_equal2 (@cons R)); [tac|] | |- nil = nil => reflexivity end.
Definition eps1 : R := 1 - 1 / 8388608.
Definition dotq (env : renv) : R := X env 3 * Y env 3 + X env 0 * Y env 0 + (X env 1 * Y env 1 + X env 2 * Y env 2).
(* components in the order x, y, z, w of out_qua *)
Definition blendq (env : renv) (s : R) : list R := map (fun i => (1 - a_ env) * X env i + (0 + a_ env) * (s * Y env i)) [0; 1; 2; 3]%Z.
Definition sphq (env : renv) (s c : R) : list R :=
  let sn := sqrt (1 - c * c) in let ang := Ratan2 sn c in
  map (fun i => sin ((1 - a_ env) * ang) * (1 / sn) * X env i + sin ((0 + a_ env) * ang) * (1 / sn) * (s * Y env i)) [0; 1; 2; 3]%Z.
Definition shortMix_ok : Prop := exists t, lookup "shortMix_q" cat = Some t /\ forall env,
  evalT env t = Some (true,
    if Rle_dec (a_ env) 0 then map (X env) [0; 1; 2; 3]%Z else if Rle_dec 1 (a_ env) then map (Y env) [0; 1; 2; 3]%Z
    else if Rlt_dec (dotq env) 0 then (if Rlt_dec eps1 (- dotq env) then blendq env (-1) else sphq env (-1) (- dotq env))
    else (if Rlt_dec eps1 (dotq env) then blendq env 1 else sphq env 1 (dotq env))).
Lemma shortMix_def : shortMix_ok.
Proof.
  unfold shortMix_ok. eexists; split; [vm_compute; reflexivity|]. intros env. unfold blendq, sphq, dotq, eps1, X, Y, a_. cbv zeta. ev. unfold Rdiv.
  split_dec; try (exfalso; lra); lists ltac:(first [reflexivity | ring]).
Qed.
Definition bq (env : renv) (i : Z) : R := X env i * (1 - a_ env) + Y env i * a_ env.
Definition fastMix_ok : Prop := exists t, lookup "fastMix_q" cat = Some t /\ forall env,
  let len := sqrt (bq env 3 * bq env 3 + bq env 0 * bq env 0 + (bq env 1 * bq env 1 + bq env 2 * bq env 2)) in
  evalT env t = Some (true, if Rle_dec len 0 then [0; 0; 0; 1] else map (fun i => bq env i * (1 / len)) [0; 1; 2; 3]%Z).
Lemma fastMix_def : fastMix_ok.
Proof.
  unfold fastMix_ok. eexists; split; [vm_compute; reflexivity|]. intros env. unfold bq, X, Y, a_. cbv zeta. ev.
  repeat match goal with |- context [sqrt ?u] => match goal with |- context [sqrt ?v] => tryif constr_eq u v then fail else (replace u with v by ring) end end.
  split_dec; try (exfalso; lra); lists ltac:(first [reflexivity | ring]).
Qed.
