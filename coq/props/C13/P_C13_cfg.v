(* C13: neither quaternion storage macro changes any interpolation expression (R1, whole catalogue). *)
Require Import ZArith List String Bool.
Import ListNotations.
From GLMV Require Import Expr Cat.
From W Require Gen_C13 Gen_C13_WXYZ Gen_C13_XYZW.
Local Open Scope string_scope.
Fixpoint same_cat (a b : list (string * tree)) : bool :=
  match a, b with
  | [], [] => true
  | (n, t) :: a', (m, u) :: b' => String.eqb n m && tree_eqb t u && negb (has_abort t) && same_cat a' b'
  | _, _ => false
  end.
Lemma storage_macros_change_nothing : same_cat Gen_C13.catalogue Gen_C13_WXYZ.catalogue && same_cat Gen_C13.catalogue Gen_C13_XYZW.catalogue = true.
Proof. vm_compute. reflexivity. Qed.
