(* Properties_C13.v -- C13: slerp/mix/lerp interpolate rotations at constant speed along the right arc.
   Statements only; proofs are `exact <lemma>` from P_C13.v / P_C13_cfg.v, checked against the models regenerated from
   /repo on this run (default, GLM_FORCE_QUAT_DATA_WXYZ and GLM_FORCE_QUAT_DATA_XYZW).  Real-number semantics.
   How the pieces combine: slerp_ok gives the decision tree (flip y when dot<0; affine blend when cos' > 1-eps, else the
   formula (sin((1-a)th) x + sin(a th) z)/sin th with th = acos cos'); guard_ok shows that on the spherical leaves
   -1 <= cos' <= 1 and sin th <> 0 (so nothing is NaN in the idealisation and cos(th) = cos' = x.z);
   sph_law then gives unit length and angle a*th from x; endpoints_ok gives slerp(x,y,0)=x and slerp(x,y,1)=z=+-y. *)
Require Import ZArith List String Bool Reals.
Import ListNotations.
From GLMV Require Import Expr SemR Cat Comm Chk SpecLinAlg SpecProj SpecGeom.
From W Require Gen_C13 Gen_C13_WXYZ Gen_C13_XYZW P_C13 P_C13_cfg P_C13_dual P_C13_mix.
Local Open Scope string_scope.
Theorem C13_lerp_is_affine_blend : P_C13.lerp_ok. Proof. exact P_C13.lerp_def. Qed.
Theorem C13_slerp_tree_and_formulas : P_C13.slerp_ok "slerp_q". Proof. exact P_C13.slerp_def. Qed.
Theorem C13_slerp_with_spin_count : P_C13.slerp_k_ok. Proof. exact P_C13.slerp_k_def. Qed.
Theorem C13_mix_tree_and_formulas : P_C13.mix_ok. Proof. exact P_C13.mix_def. Qed.
Theorem C13_guards_keep_spherical_branch_defined : P_C13.guard_ok. Proof. exact P_C13.guard_def. Qed.
Theorem C13_spherical_formula_unit_length_constant_speed : P_C13.sph_law. Proof. exact P_C13.sph_law_proof. Qed.
Theorem C13_end_points : P_C13.endpoints_ok. Proof. exact P_C13.endpoints_def. Qed.
Theorem C13_storage_macros_change_nothing :
  P_C13_cfg.same_cat Gen_C13.catalogue Gen_C13_WXYZ.catalogue && P_C13_cfg.same_cat Gen_C13.catalogue Gen_C13_XYZW.catalogue = true.
Proof. exact P_C13_cfg.storage_macros_change_nothing. Qed.
(* dual-quaternion lerp: the exact affine blend of x with +-y (sign of dot(x.real, y.real)), end points x and +-y *)
Theorem C13_dual_quaternion_lerp : P_C13_dual.dual_lerp_ok. Proof. exact P_C13_dual.dual_lerp_def. Qed.
(* gtx shortMix: end points exactly, shorter arc, affine blend above 1 - epsilon, spherical formula below; fastMix = normalize(lerp) *)
Theorem C13_gtx_shortMix : P_C13_mix.shortMix_ok. Proof. exact P_C13_mix.shortMix_def. Qed.
Theorem C13_gtx_fastMix : P_C13_mix.fastMix_ok. Proof. exact P_C13_mix.fastMix_def. Qed.
Print Assumptions C13_slerp_tree_and_formulas.
Print Assumptions C13_guards_keep_spherical_branch_defined.
Print Assumptions C13_spherical_formula_unit_length_constant_speed.
Print Assumptions C13_storage_macros_change_nothing.
Print Assumptions C13_dual_quaternion_lerp.
Print Assumptions C13_gtx_shortMix.
