(* C13: slerp / mix / lerp.  x = argument 0, y = argument 1 (components x,y,z,w = 0..3), a = argument 2. *)
Require Import ZArith List String Bool Reals Lra.
Import ListNotations.
From GLMV Require Import Expr SemR Cat Comm Chk SpecLinAlg SpecProj SpecGeom.
From W Require Gen_C13.
Require Import Nsatz.
Local Open Scope string_scope.
Local Open Scope Z_scope.
Definition cat := Gen_C13.catalogue.
Ltac evR' := cbv [eqR map evalR evalRB binR unR cmpR cstR Z.leb Z.ltb Z.compare Z.mul Z.pow Z.pow_pos Pos.iter Pos.mul Z.opp Z.abs fst snd app].
Ltac norm2 env := repeat match goal with |- context [map (evalR env) ?a] => progress (let a' := eval vm_compute in a in change (map (evalR env) a) with (map (evalR env) a')) end.
Ltac normE env := repeat match goal with |- context [evalR env ?a] => progress (let a' := eval vm_compute in a in change (evalR env a) with (evalR env a')) end.
Definition qx := vecv 0 4. Definition qy := vecv 1 4. Definition aa := V F32 2 0.
Definition one_minus_eps : expr := B Sub F32 (Cf F32 false 1 0) (Cf F32 false 1 (-23)).
Definition zero := Cf F32 false 0 0.
Definition blend (x z : list expr) : list expr := map (fun p => eadd (emul (fst p) (esub (ec 1) aa)) (emul (snd p) aa)) (combine x z).
(* (sin((1-a) th) x + sin(a th) z) / sin th *)
Definition sph (x z : list expr) (th : expr) : list expr :=
  map (fun p => ediv (eadd (emul (fst p) (U Sin F32 (emul (esub (ec 1) aa) th))) (emul (snd p) (U Sin F32 (emul aa th)))) (U Sin F32 th)) (combine x z).
Definition negv (v : list expr) := map eneg v.

(* lerp is the exact affine blend; its recorded preconditions are 0 <= a and a <= 1 *)
Definition lerp_ok : Prop := exists o, lookup "lerp_q" cat = Some (Leaf (Cmp CGe F32 aa zero :: Cmp CLe F32 aa (Cf F32 false 1 0) :: nil) o) /\ forall env, eqR env o (blend qx qy).
Lemma lerp_def : lerp_ok. Proof. eexists; split; [vm_compute; reflexivity|]. intros env. unfold eqR; norm2 env; evR'; list_ring. Qed.

(* slerp: decision tree  dot<0 ? (use -y) : (use y);  cos' > 1-eps ? affine blend : spherical formula with theta = acos(cos') *)
Definition slerp_ok (nm : string) : Prop := exists c l1 s1 l2 s2,
  lookup nm cat = Some (Br (Cmp CLt F32 c zero) (Br (Cmp CGt F32 (U Neg F32 c) one_minus_eps) (Leaf nil l1) (Leaf nil s1))
                                                  (Br (Cmp CGt F32 c one_minus_eps) (Leaf nil l2) (Leaf nil s2))) /\
  forall env, evalR env c = evalR env (dot_e qx qy) /\
    eqR env l2 (blend qx qy) /\ eqR env l1 (blend qx (negv qy)) /\
    eqR env s2 (sph qx qy (U Acos F32 c)) /\ eqR env s1 (sph qx (negv qy) (U Acos F32 (U Neg F32 c))).
Lemma slerp_def : slerp_ok "slerp_q".
Proof. unfold slerp_ok. do 5 eexists. split; [vm_compute; reflexivity|]. intros env. split; [normE env; evR'; ring|]. repeat split; unfold eqR; norm2 env; evR'; list_ring. Qed.
(* mix: no flip *)
Definition mix_ok : Prop := exists c l s, lookup "mix_q" cat = Some (Br (Cmp CGt F32 c one_minus_eps) (Leaf nil l) (Leaf nil s)) /\
  forall env, evalR env c = evalR env (dot_e qx qy) /\ eqR env l (blend qx qy) /\ eqR env s (sph qx qy (U Acos F32 c)).
Lemma mix_def : mix_ok.
Proof. unfold mix_ok. do 3 eexists. split; [vm_compute; reflexivity|]. intros env. split; [normE env; evR'; ring|]. split; unfold eqR; norm2 env; evR'; list_ring. Qed.

(* the guards keep the spherical branch well defined: 0 <= c' <= 1 - eps, hence -1 <= c' <= 1 and sin(acos c') <> 0 *)
Lemma guard_real (c : R) : (~ (c < 0) -> ~ (1 - 1 / IZR (2 ^ 23) < c) -> -1 <= c <= 1 /\ sin (acos c) <> 0)%R.
Proof.
  intros H0 H1. assert (He : (0 < 1 / IZR (2 ^ 23))%R) by (apply Rdiv_lt_0_compat; [lra | apply IZR_lt; reflexivity]).
  assert (Hc : (-1 <= c <= 1)%R) by lra. split; [exact Hc|]. rewrite (sin_acos c Hc).
  apply Rgt_not_eq. apply sqrt_lt_R0. assert (c * c < 1)%R by nra. unfold Rsqr. lra.
Qed.
Definition guard_ok : Prop := forall env c, evalRB env (Cmp CLt F32 c zero) = false -> evalRB env (Cmp CGt F32 c one_minus_eps) = false ->
  (-1 <= evalR env c <= 1)%R /\ sin (evalR env (U Acos F32 c)) <> 0%R.
Lemma guard_def : guard_ok.
Proof. intros env c H0 H1. unfold one_minus_eps, zero in *. cbn [evalRB evalR cmpR binR cstR] in H0, H1.
  destruct (Rlt_dec (evalR env c) _) as [|Hn0] in H0; [discriminate|]. destruct (Rlt_dec _ (evalR env c)) as [|Hn1] in H1; [discriminate|].
  cbn [evalR unR]. apply guard_real.
  - intro H; apply Hn0. cbv [Z.leb Z.compare Z.mul Z.pow Z.pow_pos Pos.iter Pos.mul]. exact H.
  - intro H; apply Hn1. cbv [Z.leb Z.compare Z.mul Z.pow Z.pow_pos Pos.iter Pos.mul Z.opp]. change (2 ^ 23)%Z with 8388608%Z in H. lra.
Qed.

(* the spherical formula: for unit x, z with x.z = cos th and sin th <> 0 the result has unit length and sits at angle a*th from x *)
Definition sph_law : Prop := forall env (th : R), let x := map (evalR env) qx in let z := map (evalR env) qy in let a := evalR env aa in
  let S := map (fun p => ((fst p * sin ((1 - a) * th) + snd p * sin (a * th)) / sin th)%R) (combine x z) in
  let dotl := fun u v => fold_right Rplus 0%R (map (fun p => (fst p * snd p)%R) (combine u v)) in
  dotl x x = 1%R -> dotl z z = 1%R -> dotl x z = cos th -> sin th <> 0%R ->
  dotl S S = 1%R /\ dotl x S = cos (a * th).
Lemma sph_law_proof : sph_law.
Proof.
  intros env th. cbv [qx qy aa vecv zseq map seq Z.to_nat Pos.to_nat Pos.iter_op Nat.add Z.of_nat Pos.of_succ_nat Pos.succ evalR combine fold_right fst snd].
  intros Hx Hz Hc Hs.
  set (a := env F32 2%Z 0%Z) in *.
  replace ((1 - a) * th)%R with (th - a * th)%R by ring. rewrite sin_minus.
  pose proof (sin2_cos2 th) as Ht. pose proof (sin2_cos2 (a * th)) as Ha. unfold Rsqr in Ht, Ha.
  set (s := sin th) in *; set (c := cos th) in *; set (sa := sin (a * th)) in *; set (ca := cos (a * th)) in *. clearbody s c sa ca.
  assert (K1 : ((s * ca - c * sa) * (s * ca - c * sa) + 2 * (s * ca - c * sa) * sa * c + sa * sa = s * s)%R) by nsatz.
  assert (K2 : ((s * ca - c * sa) + sa * c = s * ca)%R) by ring.
  match type of Hx with ?X = _ => match type of Hz with ?Z = _ => match type of Hc with ?C = _ =>
    split;
    [ transitivity (((s * ca - c * sa) * (s * ca - c * sa) * X + 2 * (s * ca - c * sa) * sa * C + sa * sa * Z) / (s * s))%R;
      [ field; assumption | rewrite Hx, Hz, Hc; rewrite !Rmult_1_r; rewrite K1; field; assumption ]
    | transitivity (((s * ca - c * sa) * X + sa * C) / s)%R;
      [ field; assumption | rewrite Hx, Hc; rewrite Rmult_1_r; rewrite K2; field; assumption ] ]
  end end end.
Qed.

(* slerp with spin count k (argument 3): same tree, spherical leaf (sin(th - a*phi) x + sin(a*phi) z)/sin th with
   phi = th + k*pi (pi = the float constant GLM uses) *)
Definition kk : expr := Cv F32 I32 (V I32 3 0).
Definition pi_f : expr := Cf F32 false 13176795 (-22).
Definition sphk (x z : list expr) (th : expr) : list expr :=
  let phi := eadd th (emul kk pi_f) in
  map (fun p => ediv (eadd (emul (fst p) (U Sin F32 (esub th (emul aa phi)))) (emul (snd p) (U Sin F32 (emul aa phi)))) (U Sin F32 th)) (combine x z).
Definition slerp_k_ok : Prop := exists c l1 s1 l2 s2,
  lookup "slerp_k" cat = Some (Br (Cmp CLt F32 c zero) (Br (Cmp CGt F32 (U Neg F32 c) one_minus_eps) (Leaf nil l1) (Leaf nil s1))
                                                        (Br (Cmp CGt F32 c one_minus_eps) (Leaf nil l2) (Leaf nil s2))) /\
  forall env, evalR env c = evalR env (dot_e qx qy) /\ eqR env l2 (blend qx qy) /\ eqR env l1 (blend qx (negv qy)) /\
    eqR env s2 (sphk qx qy (U Acos F32 c)) /\ eqR env s1 (sphk qx (negv qy) (U Acos F32 (U Neg F32 c))).
Lemma slerp_k_def : slerp_k_ok.
Proof. unfold slerp_k_ok. do 5 eexists. split; [vm_compute; reflexivity|]. intros env. split; [normE env; evR'; ring|]. repeat split; unfold eqR; norm2 env; evR'; list_ring. Qed.

(* end points: a = 0 gives x and a = 1 gives z, on the affine leaf and (when sin th <> 0) on the spherical leaf *)
Lemma sph_endpoints (x z t : R) : sin t <> 0%R ->
  ((x * sin ((1 - 0) * t) + z * sin (0 * t)) / sin t = x /\ (x * sin ((1 - 1) * t) + z * sin (1 * t)) / sin t = z)%R.
Proof. intros Hs. replace ((1 - 0) * t)%R with t by ring. replace (0 * t)%R with 0%R by ring. replace ((1 - 1) * t)%R with 0%R by ring. replace (1 * t)%R with t by ring.
  rewrite sin_0. split; field; exact Hs. Qed.
Definition endpoints_ok : Prop := forall env (th : expr), evalR env (U Sin F32 th) <> 0%R ->
  (env F32 2 0 = 0%R -> eqR env (blend qx qy) qx /\ eqR env (sph qx qy th) qx) /\
  (env F32 2 0 = 1%R -> eqR env (blend qx qy) qy /\ eqR env (sph qx qy th) qy).
Lemma endpoints_def : endpoints_ok.
Proof.
  intros env th Hs. cbn [evalR unR] in Hs. set (t := evalR env th) in *.
  split; intros Ha; (split; [unfold eqR; norm2 env; evR'; rewrite Ha; list_ring|]);
  unfold eqR; norm2 env; cbv [map]; cbn [evalR binR unR cstR Z.leb Z.ltb Z.compare Z.abs]; fold t; rewrite Ha; cbv [Z.mul Z.pow Z.pow_pos Pos.iter Pos.mul];
  repeat (match goal with |- cons _ _ = cons _ _ => apply f_equal2; [ first [apply (proj1 (sph_endpoints _ _ t Hs)) | apply (proj2 (sph_endpoints _ _ t Hs))] | ] | |- nil = nil => reflexivity end).
Qed.
