(* C13 (continued): dual-quaternion lerp.  lerp(x, y, a) = x (1 - a) + y k  with  k = -a when dot(x.real, y.real) < 0 and a
   otherwise: the exact affine blend of x with +-y (recorded precondition 0 <= a <= 1), so that a = 0 gives x and a = 1 gives
   +-y component for component; shortMix / fastMix: see P_C13. *)
Require Import ZArith List String Bool Reals Lra.
Import ListNotations.
From GLMV Require Import Expr SemR Cat Comm Chk SpecLinAlg SpecProj SpecGeom.
From W Require Gen_C13.
Local Open Scope string_scope.
Local Open Scope Z_scope.
Definition cat := Gen_C13.catalogue.
Ltac evR' := cbv [eqR map evalR evalRB binR unR cmpR cstR Z.leb Z.ltb Z.compare Z.mul Z.pow Z.pow_pos Pos.iter Pos.mul Z.opp Z.abs fst snd].
Ltac norm2 env := repeat match goal with |- context [map (evalR env) ?a] => progress (let a' := eval vm_compute in a in change (map (evalR env) a) with (map (evalR env) a')) end.
(* x = (real: arg 0, dual: arg 1), y = (real: arg 2, dual: arg 3), a = arg 4 *)
Definition xs : list expr := vecv 0 4 ++ vecv 1 4.
Definition ys : list expr := vecv 2 4 ++ vecv 3 4.
Definition a4 : expr := V F32 4 0.
Definition blend_k (k : expr) : list expr := map (fun p => eadd (emul (fst p) (esub (ec 1) a4)) (emul (snd p) k)) (combine xs ys).
Definition dual_lerp_ok : Prop := exists c pre l1 l2, lookup "dual_lerp" cat = Some (Br (Cmp CLt F32 c (Cf F32 false 0 0)) (Leaf pre l1) (Leaf pre l2)) /\
  pre = [Cmp CGe F32 a4 (Cf F32 false 0 0); Cmp CLe F32 a4 (Cf F32 false 1 0)] /\
  forall env, evalR env c = evalR env (dot_e (vecv 0 4) (vecv 2 4)) /\ eqR env l1 (blend_k (eneg a4)) /\ eqR env l2 (blend_k a4) /\
    (* end points *)
    (evalR env a4 = 0%R -> eqR env l1 xs /\ eqR env l2 xs) /\ (evalR env a4 = 1%R -> eqR env l1 (map eneg ys) /\ eqR env l2 ys).
Lemma dual_lerp_def : dual_lerp_ok.
Proof.
  unfold dual_lerp_ok. eexists _, _, _, _. split; [vm_compute; reflexivity|]. split; [reflexivity|]. intros env.
  split; [match goal with |- evalR env ?a = evalR env ?b => let a' := eval vm_compute in a in let b' := eval vm_compute in b in change (evalR env a' = evalR env b') end; evR'; ring|].
  split; [unfold eqR; norm2 env; evR'; list_ring|]. split; [unfold eqR; norm2 env; evR'; list_ring|].
  split; intros Ha; unfold a4 in Ha; cbn [evalR] in Ha; (split; unfold eqR; norm2 env; evR'; rewrite ?Ha; list_ring).
Qed.
