(* C09 (continued): lookAtRH / lookAtLH are RIGID transforms: for eye <> center and up not parallel to the view direction the upper-left 3x3 block
   has orthonormal rows and determinant +1, the last row is (0,0,0,1), and up is mapped into the +y half-plane (its y coordinate is |f x up| > 0).
   The two inverse square roots are abstracted as i1, i2 with i1^2 * |d|^2 = 1 and i2^2 * |f x up|^2 = 1; the identities are then polynomial (nsatz). *)
Require Import ZArith List String Bool Reals Lra.
Import ListNotations.
From GLMV Require Import Expr SemR Cat.
From W Require Gen_C09.
Local Open Scope R_scope.
Ltac ev := cbv [map evalT evalR evalRB binR unR cmpR cstR forallb Z.leb Z.ltb Z.compare Z.mul Z.pow Z.pow_pos Pos.iter Pos.mul Z.opp Z.abs].
Definition E (env : renv) (i : Z) : R := env F32 0%Z i. Definition C (env : renv) (i : Z) : R := env F32 1%Z i. Definition U (env : renv) (i : Z) : R := env F32 2%Z i.
Definition D (env : renv) (i : Z) : R := C env i - E env i.
Definition dd env := D env 0 * D env 0 + D env 1 * D env 1 + D env 2 * D env 2.
(* |d x up|^2 *)
Definition cc env := (D env 1 * U env 2 - U env 1 * D env 2) * (D env 1 * U env 2 - U env 1 * D env 2) + (D env 2 * U env 0 - U env 2 * D env 0) * (D env 2 * U env 0 - U env 2 * D env 0) + (D env 0 * U env 1 - U env 0 * D env 1) * (D env 0 * U env 1 - U env 0 * D env 1).
Definition el (l : list R) (r c : nat) : R := nth (4 * c + r) l 0.
Definition rigid_ok (t : tree) : Prop := forall env, 0 < dd env -> 0 < cc env -> exists l, evalT env t = Some (true, l) /\ List.length l = 16%nat /\
  el l 0 0 * el l 0 0 + el l 0 1 * el l 0 1 + el l 0 2 * el l 0 2 = 1 /\ el l 1 0 * el l 1 0 + el l 1 1 * el l 1 1 + el l 1 2 * el l 1 2 = 1 /\ el l 2 0 * el l 2 0 + el l 2 1 * el l 2 1 + el l 2 2 * el l 2 2 = 1 /\
  el l 0 0 * el l 1 0 + el l 0 1 * el l 1 1 + el l 0 2 * el l 1 2 = 0 /\ el l 0 0 * el l 2 0 + el l 0 1 * el l 2 1 + el l 0 2 * el l 2 2 = 0 /\ el l 1 0 * el l 2 0 + el l 1 1 * el l 2 1 + el l 1 2 * el l 2 2 = 0 /\
  el l 0 0 * (el l 1 1 * el l 2 2 - el l 1 2 * el l 2 1) - el l 0 1 * (el l 1 0 * el l 2 2 - el l 1 2 * el l 2 0) + el l 0 2 * (el l 1 0 * el l 2 1 - el l 1 1 * el l 2 0) = 1 /\
  el l 3 0 = 0 /\ el l 3 1 = 0 /\ el l 3 2 = 0 /\ el l 3 3 = 1 /\
  0 < el l 1 0 * U env 0 + el l 1 1 * U env 1 + el l 1 2 * U env 2.
Require Import Nsatz.
Local Open Scope R_scope.
Theorem lookAtRH_rigid : rigid_ok Gen_C09.t_lookAtRH.
Proof. unfold Gen_C09.t_lookAtRH.
  unfold rigid_ok, dd, cc, D, E, C, U; intros env Hd Hc; ev; unfold Rdiv in *.
  set (ux := env F32 2%Z 0%Z) in *; set (uy := env F32 2%Z 1%Z) in *; set (uz := env F32 2%Z 2%Z) in *.
  set (px := env F32 1%Z 0%Z - env F32 0%Z 0%Z) in *; set (py := env F32 1%Z 1%Z - env F32 0%Z 1%Z) in *; set (pz := env F32 1%Z 2%Z - env F32 0%Z 2%Z) in *.
  set (d2 := px * px + py * py + pz * pz) in *.
  pose proof (sqrt_lt_R0 d2 Hd) as S1p; pose proof (sqrt_sqrt d2 (Rlt_le _ _ Hd)) as S1; set (s1 := sqrt d2) in *.
  set (i1 := / s1) in *; assert (I1 : i1 * s1 = 1) by (unfold i1; apply Rinv_l; lra).
  assert (I1p : 0 < i1) by (unfold i1; apply Rinv_0_lt_compat; exact S1p).
  match goal with |- context [sqrt ?A] => lazymatch A with context [sqrt _] => fail | _ => set (A2 := A) in * end end.
  match type of Hc with 0 < ?c => assert (EA : A2 = c * (i1 * i1)) by (unfold A2; ring) end.
  assert (A2p : 0 < A2) by (rewrite EA; apply Rmult_lt_0_compat; [exact Hc | apply Rmult_lt_0_compat; exact I1p]).
  pose proof (sqrt_lt_R0 A2 A2p) as S2p; pose proof (sqrt_sqrt A2 (Rlt_le _ _ A2p)) as S2; set (s2 := sqrt A2) in *.
  set (i2 := / s2) in *; assert (I2 : i2 * s2 = 1) by (unfold i2; apply Rinv_l; lra).
  eexists; split; [reflexivity|]; split; [reflexivity|]; cbv [el List.nth Nat.mul Nat.add].
  unfold A2 in S2; clearbody i1 i2 s1 s2 px py pz ux uy uz; unfold d2 in S1; clear - S1 I1 S2 I2 S2p.
  repeat match goal with |- _ /\ _ => split end.
  all: try (solve [clear S2p; nsatz]).
  match goal with |- 0 < ?e => assert (Eq : e = s2) by (clear S2p; nsatz); rewrite Eq; exact S2p end.
Qed.
Theorem lookAtLH_rigid : rigid_ok Gen_C09.t_lookAtLH.
Proof. unfold Gen_C09.t_lookAtLH.
  unfold rigid_ok, dd, cc, D, E, C, U; intros env Hd Hc; ev; unfold Rdiv in *.
  set (ux := env F32 2%Z 0%Z) in *; set (uy := env F32 2%Z 1%Z) in *; set (uz := env F32 2%Z 2%Z) in *.
  set (px := env F32 1%Z 0%Z - env F32 0%Z 0%Z) in *; set (py := env F32 1%Z 1%Z - env F32 0%Z 1%Z) in *; set (pz := env F32 1%Z 2%Z - env F32 0%Z 2%Z) in *.
  set (d2 := px * px + py * py + pz * pz) in *.
  pose proof (sqrt_lt_R0 d2 Hd) as S1p; pose proof (sqrt_sqrt d2 (Rlt_le _ _ Hd)) as S1; set (s1 := sqrt d2) in *.
  set (i1 := / s1) in *; assert (I1 : i1 * s1 = 1) by (unfold i1; apply Rinv_l; lra).
  assert (I1p : 0 < i1) by (unfold i1; apply Rinv_0_lt_compat; exact S1p).
  match goal with |- context [sqrt ?A] => lazymatch A with context [sqrt _] => fail | _ => set (A2 := A) in * end end.
  match type of Hc with 0 < ?c => assert (EA : A2 = c * (i1 * i1)) by (unfold A2; ring) end.
  assert (A2p : 0 < A2) by (rewrite EA; apply Rmult_lt_0_compat; [exact Hc | apply Rmult_lt_0_compat; exact I1p]).
  pose proof (sqrt_lt_R0 A2 A2p) as S2p; pose proof (sqrt_sqrt A2 (Rlt_le _ _ A2p)) as S2; set (s2 := sqrt A2) in *.
  set (i2 := / s2) in *; assert (I2 : i2 * s2 = 1) by (unfold i2; apply Rinv_l; lra).
  eexists; split; [reflexivity|]; split; [reflexivity|]; cbv [el List.nth Nat.mul Nat.add].
  unfold A2 in S2; clearbody i1 i2 s1 s2 px py pz ux uy uz; unfold d2 in S1; clear - S1 I1 S2 I2 S2p.
  repeat match goal with |- _ /\ _ => split end.
  all: try (solve [clear S2p; nsatz]).
  match goal with |- 0 < ?e => assert (Eq : e = s2) by (clear S2p; nsatz); rewrite Eq; exact S2p end.
Qed.
(* the hypotheses are satisfiable: eye = 0, center = -z, up = +y *)
Example rigid_hyps : exists env : renv, 0 < dd env /\ 0 < cc env.
Proof. exists (fun _ a i => if (Z.eqb a 1 && Z.eqb i 2)%bool then -1 else if (Z.eqb a 2 && Z.eqb i 1)%bool then 1 else 0). unfold dd, cc, D, E, C, U. cbn. split; lra. Qed.
