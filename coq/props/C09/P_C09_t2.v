(* C09 (continued): gtx/transform2.  shearX2D / shearY2D / shearX3D / shearY3D / shearZ3D, reflect2D / reflect3D, proj2D / proj3D and scaleBias
   are m multiplied on the right by the elementary matrix they name: the shear with the given off-diagonal entries, the Householder reflection
   I - 2 n n^T, the projection I - n n^T onto the plane orthogonal to n (upper-left block), uniform scale with a bias translation. *)
Require Import ZArith List String Bool Reals Lra.
Import ListNotations.
From GLMV Require Import Expr SemR Cat Comm Chk SpecLinAlg SpecProj SpecGeom.
From W Require Gen_C09.
From W Require Import P_C09.
Local Open Scope string_scope.
Local Open Scope Z_scope.
Definition n_ (i : Z) := V F32 1 i.
Definition two := ec 2.
(* column-major 3x3 / 4x4 with block entries f col row on the first k rows and columns, identity elsewhere *)
Definition blk (dim k : Z) (f : Z -> Z -> expr) : list expr :=
  flat_map (fun c => map (fun r => if (c <? k) && (r <? k) then f c r else if c =? r then ec 1 else ec 0) (zseq dim)) (zseq dim).
Definition house (c r : Z) : expr := esub (if c =? r then ec 1 else ec 0) (emul (emul two (n_ c)) (n_ r)).
Definition projn (c r : Z) : expr := esub (if c =? r then ec 1 else ec 0) (emul (n_ c) (n_ r)).
Definition sh (dim : Z) (ents : list (Z * Z * expr)) : list expr :=
  flat_map (fun c => map (fun r => match find (fun e => (fst (fst e) =? c) && (snd (fst e) =? r)) ents with Some e => snd e | None => if c =? r then ec 1 else ec 0 end) (zseq dim)) (zseq dim).
Definition SB : list expr := [v1 0; ec 0; ec 0; ec 0;  ec 0; v1 0; ec 0; ec 0;  ec 0; ec 0; v1 0; ec 0;  v1 1; v1 1; v1 1; ec 1].
Definition t2_ok : Prop := present ["shearX2D"; "shearY2D"; "shearX3D"; "shearY3D"; "shearZ3D"; "reflect2D"; "reflect3D"; "proj2D"; "proj3D"; "scaleBias"] = true /\
  forall env,
    eqR env (get "shearX2D") (mat3_mul M3v (sh 3 [(1, 0, v1 0)])) /\ eqR env (get "shearY2D") (mat3_mul M3v (sh 3 [(0, 1, v1 0)])) /\
    eqR env (get "shearX3D") (mat4_mul Mv (sh 4 [(0, 1, v1 0); (0, 2, v1 1)])) /\ eqR env (get "shearY3D") (mat4_mul Mv (sh 4 [(1, 0, v1 0); (1, 2, v1 1)])) /\
    eqR env (get "shearZ3D") (mat4_mul Mv (sh 4 [(2, 0, v1 0); (2, 1, v1 1)])) /\
    eqR env (get "reflect2D") (mat3_mul M3v (blk 3 2 house)) /\ eqR env (get "reflect3D") (mat4_mul Mv (blk 4 3 house)) /\
    eqR env (get "proj2D") (mat3_mul M3v (blk 3 2 projn)) /\ eqR env (get "proj3D") (mat4_mul Mv (blk 4 3 projn)) /\
    eqR env (get "scaleBias") (mat4_mul Mv SB).
Lemma t2_def : t2_ok. Proof. split; [vm_compute; reflexivity|]. intros env. repeat split; unfold eqR; norm2 env; evR'; list_ring. Qed.
