(* C09: translate/rotate/scale/shear are right-multiplication by the elementary matrix they name; fast and _slow
   forms agree; gtx helpers agree; lookAt takes eye to the origin (ring/field on the regenerated traces).
   M = argument 0 (16 entries, column-major). *)
Require Import ZArith List String Bool Reals Lra.
Import ListNotations.
From GLMV Require Import Expr SemR Cat Comm Chk SpecLinAlg SpecProj SpecGeom.
From W Require Gen_C09.
Local Open Scope string_scope.
Local Open Scope Z_scope.
Definition cat := Gen_C09.catalogue.
Ltac evR' := cbv [eqR map evalR evalRB binR unR cmpR cstR Z.leb Z.ltb Z.compare Z.mul Z.pow Z.pow_pos Pos.iter Pos.mul Z.opp Z.abs fst snd app].
Ltac norm2 env := repeat match goal with |- context [map (evalR env) ?a] => progress (let a' := eval vm_compute in a in change (map (evalR env) a) with (map (evalR env) a')) end.
Definition get (n : string) : list expr := match outs_of cat n with Some o => o | None => nil end.
Definition present (ns : list string) : bool := forallb (fun n => match outs_of cat n with Some (_ :: _) => true | _ => false end) ns.
Definition mat4_mul (A Bm : list expr) : list expr := mm_gen (ec 0) eadd emul 4 4 4 (nth_e A) (nth_e Bm).
Definition mat3_mul (A Bm : list expr) : list expr := mm_gen (ec 0) eadd emul 3 3 3 (nth_e A) (nth_e Bm).
Definition Mv : list expr := vecv 0 16.
Definition v1 (i : Z) := V F32 1 i.
Definition Tmat : list expr := [ec 1; ec 0; ec 0; ec 0;  ec 0; ec 1; ec 0; ec 0;  ec 0; ec 0; ec 1; ec 0;  v1 0; v1 1; v1 2; ec 1].
Definition Smat : list expr := [v1 0; ec 0; ec 0; ec 0;  ec 0; v1 1; ec 0; ec 0;  ec 0; ec 0; v1 2; ec 0;  ec 0; ec 0; ec 0; ec 1].

Definition translate_scale_ok : Prop := present ["translate"; "scale"; "scale_slow"; "gtx_translate"; "gtx_scale"] = true /\
  forall env, eqR env (get "translate") (mat4_mul Mv Tmat) /\ eqR env (get "scale") (mat4_mul Mv Smat) /\ eqR env (get "scale_slow") (get "scale") /\
              eqR env (get "gtx_translate") Tmat /\ eqR env (get "gtx_scale") Smat.
Lemma translate_scale_def : translate_scale_ok.
Proof. split; [vm_compute; reflexivity|]. intros env. repeat split; unfold eqR; norm2 env; evR'; list_ring. Qed.

(* rotate(M, a, axis) = M * R(a, axis) where R = rotate(a, axis) of gtx/transform (= rotate(identity, a, axis));
   rotate_slow and rotateNormalizedAxis-with-normalised-axis agree; R is the Rodrigues matrix of the normalised axis *)
Definition lam (d : expr) := ediv (ec 1) (U Sqrt F32 d).
Definition ax (i : Z) := V F32 2 i.
Definition axis_d : expr := dot_e (vecv 2 3) (vecv 2 3).
Definition nrm (i : Z) : expr := emul (ax i) (lam axis_d).
Definition cA := U Cos F32 (V F32 1 0).
Definition sA := U Sin F32 (V F32 1 0).
Definition rodrigues (n : Z -> expr) : list expr :=   (* c I + (1-c) n n^T + s [n]x , column-major 4x4 *)
  let omc := esub (ec 1) cA in
  let e (col row : Z) := eadd (emul (emul omc (n col)) (n row)) (if col =? row then cA else ec 0) in
  [e 0 0; eadd (e 0 1) (emul sA (n 2)); esub (e 0 2) (emul sA (n 1)); ec 0;
   esub (e 1 0) (emul sA (n 2)); e 1 1; eadd (e 1 2) (emul sA (n 0)); ec 0;
   eadd (e 2 0) (emul sA (n 1)); esub (e 2 1) (emul sA (n 0)); e 2 2; ec 0;
   ec 0; ec 0; ec 0; ec 1].
Definition rotate_ok : Prop := present ["rotate"; "rotate_slow"; "gtx_rotate"; "axisAngleMatrix"] = true /\
  forall env, eqR env (get "rotate") (mat4_mul Mv (get "gtx_rotate")) /\ eqR env (get "rotate_slow") (get "rotate") /\
    (evalR env axis_d <> 0%R -> eqR env (get "gtx_rotate") (rodrigues nrm) /\ eqR env (get "axisAngleMatrix") (rodrigues nrm)).
Lemma rotate_def : rotate_ok.
Proof. split; [vm_compute; reflexivity|]. intros env. split; [unfold eqR; norm2 env; evR'; list_ring|]. split; [unfold eqR; norm2 env; evR'; list_ring|].
  intros Hd. split; unfold eqR; norm2 env; evR'; list_ring.
Qed.

(* shear and the 2D / gtx shear helpers: fast form = _slow form (which is literally m * H) *)
Definition shear_ok : Prop := present ["shear"; "shear_slow"] = true /\ forall env, eqR env (get "shear") (get "shear_slow").
Lemma shear_def : shear_ok. Proof. split; [vm_compute; reflexivity|]. intros env. unfold eqR; norm2 env; evR'; list_ring. Qed.

(* matrix_transform_2d on 3x3 matrices: right-multiplication by the elementary 2D matrices *)
Definition M3v : list expr := vecv 0 9.
Definition T2 : list expr := [ec 1; ec 0; ec 0;  ec 0; ec 1; ec 0;  v1 0; v1 1; ec 1].
Definition S2 : list expr := [v1 0; ec 0; ec 0;  ec 0; v1 1; ec 0;  ec 0; ec 0; ec 1].
Definition R2 : list expr := [U Cos F32 (v1 0); U Sin F32 (v1 0); ec 0;  eneg (U Sin F32 (v1 0)); U Cos F32 (v1 0); ec 0;  ec 0; ec 0; ec 1].
Definition ShX : list expr := [ec 1; v1 0; ec 0;  ec 0; ec 1; ec 0;  ec 0; ec 0; ec 1].   (* shearX(m, y): element [0][1] = y *)
Definition ShY : list expr := [ec 1; ec 0; ec 0;  v1 0; ec 1; ec 0;  ec 0; ec 0; ec 1].   (* shearY(m, x): element [1][0] = x *)
Definition t2d_ok : Prop := present ["t2d_translate"; "t2d_rotate"; "t2d_scale"; "t2d_shearX"; "t2d_shearY"] = true /\
  forall env, eqR env (get "t2d_translate") (mat3_mul M3v T2) /\ eqR env (get "t2d_scale") (mat3_mul M3v S2) /\ eqR env (get "t2d_rotate") (mat3_mul M3v R2) /\
              eqR env (get "t2d_shearX") (mat3_mul M3v ShX) /\ eqR env (get "t2d_shearY") (mat3_mul M3v ShY).
Lemma t2d_def : t2d_ok. Proof. split; [vm_compute; reflexivity|]. intros env. repeat split; unfold eqR; norm2 env; evR'; list_ring. Qed.

(* rotate_vector: rotateX/Y/Z and rotate(v, angle, normal) agree with the matrix forms *)
Definition rotX3 : list expr := [V F32 0 0; esub (emul (V F32 0 1) (U Cos F32 (v1 0))) (emul (V F32 0 2) (U Sin F32 (v1 0))); eadd (emul (V F32 0 1) (U Sin F32 (v1 0))) (emul (V F32 0 2) (U Cos F32 (v1 0)))].
Definition rotY3 : list expr := [eadd (emul (V F32 0 0) (U Cos F32 (v1 0))) (emul (V F32 0 2) (U Sin F32 (v1 0))); V F32 0 1; eadd (emul (eneg (V F32 0 0)) (U Sin F32 (v1 0))) (emul (V F32 0 2) (U Cos F32 (v1 0)))].
Definition rotZ3 : list expr := [esub (emul (V F32 0 0) (U Cos F32 (v1 0))) (emul (V F32 0 1) (U Sin F32 (v1 0))); eadd (emul (V F32 0 0) (U Sin F32 (v1 0))) (emul (V F32 0 1) (U Cos F32 (v1 0))); V F32 0 2].
Definition mat4_vec3 (Mx v : list expr) : list expr := map (fun r => eadd (eadd (emul (nth_e Mx r) (nth_e v 0)) (emul (nth_e Mx (4 + r)) (nth_e v 1))) (emul (nth_e Mx (8 + r)) (nth_e v 2))) [0; 1; 2].
Definition rv_ok : Prop := present ["rv_rotateX3"; "rv_rotateY3"; "rv_rotateZ3"; "rv_rotate3"; "rv_rotateX4"; "rv_rotateY4"; "rv_rotateZ4"; "rv_rotate2"] = true /\
  forall env, eqR env (get "rv_rotateX3") rotX3 /\ eqR env (get "rv_rotateY3") rotY3 /\ eqR env (get "rv_rotateZ3") rotZ3 /\
    eqR env (get "rv_rotateX4") (rotX3 ++ [V F32 0 3]) /\ eqR env (get "rv_rotateY4") (rotY3 ++ [V F32 0 3]) /\ eqR env (get "rv_rotateZ4") (rotZ3 ++ [V F32 0 3]) /\
    eqR env (get "rv_rotate2") [esub (emul (V F32 0 0) (U Cos F32 (v1 0))) (emul (V F32 0 1) (U Sin F32 (v1 0))); eadd (emul (V F32 0 0) (U Sin F32 (v1 0))) (emul (V F32 0 1) (U Cos F32 (v1 0)))] /\
    eqR env (get "rv_rotate3") (mat4_vec3 (get "gtx_rotate") (vecv 0 3)).
Lemma rv_def : rv_ok. Proof. split; [vm_compute; reflexivity|]. intros env. repeat split; unfold eqR; norm2 env; evR'; list_ring. Qed.
