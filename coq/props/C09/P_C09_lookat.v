(* C09: lookAtRH / lookAtLH: eye goes to the origin; the view direction (center - eye) goes to the -z (RH) or +z
   (LH) axis; up lies in the x = 0 plane; the first rows are orthogonal to the view direction; lookAt is the variant
   selected by GLM_FORCE_LEFT_HANDED.  eye = arg 0, center = arg 1, up = arg 2. *)
Require Import ZArith List String Bool Reals Lra.
Import ListNotations.
From GLMV Require Import Expr SemR Cat Comm Chk SpecLinAlg SpecProj SpecGeom.
From W Require Gen_C09 Gen_C09_LH Gen_C09_ZO Gen_C09_LHZO.
Local Open Scope string_scope.
Local Open Scope Z_scope.
Definition cat := Gen_C09.catalogue.
Ltac evR' := cbv [eqR map evalR evalRB binR unR cmpR cstR Z.leb Z.ltb Z.compare Z.mul Z.pow Z.pow_pos Pos.iter Pos.mul Z.opp Z.abs fst snd app].
Ltac norm2 env := repeat match goal with |- context [map (evalR env) ?a] => progress (let a' := eval vm_compute in a in change (map (evalR env) a) with (map (evalR env) a')) end.
Ltac normE env := repeat match goal with |- context [evalR env ?a] => progress (let a' := eval vm_compute in a in change (evalR env a) with (evalR env a')) end.
Definition get (n : string) : list expr := match outs_of cat n with Some o => o | None => nil end.
Definition eye := vecv 0 3. Definition center := vecv 1 3. Definition up := vecv 2 3.
Definition dirv := sub_v center eye.
Definition dd := dot_e dirv dirv.
(* M * (x,y,z,w) for a column-major 4x4 *)
Definition mv4 (Mx : list expr) (v : list expr) : list expr := mat_vec4 Mx v.
Definition lookat_ok (nm : string) (sgn : Z) : Prop :=
  match outs_of cat nm with Some (_ :: _) => True | _ => False end /\
  forall env,
    eqR env (mv4 (get nm) (eye ++ [ec 1])) [ec 0; ec 0; ec 0; ec 1] /\                       (* eye -> origin *)
    evalR env (nth_e (mv4 (get nm) (dirv ++ [ec 0])) 0) = 0%R /\ evalR env (nth_e (mv4 (get nm) (dirv ++ [ec 0])) 1) = 0%R /\   (* view direction on the z axis *)
    evalR env (nth_e (mv4 (get nm) (up ++ [ec 0])) 0) = 0%R /\                                  (* up has no x component *)
    (evalR env dd <> 0%R -> evalR env (nth_e (mv4 (get nm) (dirv ++ [ec 0])) 2) = (IZR sgn * sqrt (evalR env dd))%R).    (* ... at -|d| (RH) / +|d| (LH) *)
Lemma sumsq_pos1 a : (0 <= a * a)%R. Proof. nra. Qed.
Ltac nonneg := repeat (apply Rplus_le_le_0_compat); apply sumsq_pos1.
Ltac lookat_tac := unfold lookat_ok; split; [vm_compute; exact I|]; intros env; split; [unfold eqR; norm2 env; evR'; list_ring|];
  split; [normE env; evR'; ring|]; split; [normE env; evR'; ring|]; split; [normE env; evR'; ring|];
  intros Hd; normE env; evR'; match type of Hd with evalR _ ?e <> _ => let e' := eval vm_compute in e in change (evalR env e' <> 0%R) in Hd end; cbv [evalR binR cstR] in Hd;
  match type of Hd with ?d <> _ =>
    assert (Hge : (0 <= d)%R) by nonneg;
    assert (Hpos : (0 < d)%R) by (destruct Hge as [Hlt|Heq]; [exact Hlt | exfalso; apply Hd; symmetry; exact Heq]);
    assert (Hs : (sqrt d * sqrt d = d)%R) by (apply sqrt_sqrt; exact Hge);
    assert (Hsp : (0 < sqrt d)%R) by (apply sqrt_lt_R0; exact Hpos);
    set (s := sqrt d) in *; assert (Hsn : s <> 0%R) by (apply Rgt_not_eq; exact Hsp) end.
Lemma lookAtRH_def : lookat_ok "lookAtRH" (-1).
Proof. lookat_tac. match goal with |- ?lhs = _ => transitivity (- (s * s) * / s)%R; [rewrite Hs; field; exact Hsn | field; exact Hsn] end. Qed.
Lemma lookAtLH_def : lookat_ok "lookAtLH" 1.
Proof. lookat_tac. match goal with |- ?lhs = _ => transitivity ((s * s) * / s)%R; [rewrite Hs; field; exact Hsn | field; exact Hsn] end. Qed.
(* dispatch on GLM_FORCE_LEFT_HANDED *)
Definition same (c1 c2 : list (string * tree)) (a b : string) : bool := match lookup a c1, lookup b c2 with Some x, Some y => tree_eqb x y && negb (has_abort x) | _, _ => false end.
Lemma lookAt_dispatch : same cat cat "lookAt" "lookAtRH" && same Gen_C09_LH.catalogue Gen_C09_LH.catalogue "lookAt" "lookAtLH"
   && same cat Gen_C09_LH.catalogue "lookAtRH" "lookAtRH" && same cat Gen_C09_LH.catalogue "lookAtLH" "lookAtLH"
   (* the depth-range switch does not change the handedness: all four clip-control configurations *)
   && same Gen_C09_ZO.catalogue cat "lookAt" "lookAtRH" && same Gen_C09_LHZO.catalogue cat "lookAt" "lookAtLH"
   && same Gen_C09_ZO.catalogue cat "lookAtLH" "lookAtLH" && same Gen_C09_LHZO.catalogue cat "lookAtRH" "lookAtRH" = true.
Proof. vm_compute. reflexivity. Qed.
