(* Properties_C09.v -- C09: translate/rotate/scale/shear/lookAt build the transforms they name.
   Statements only; proofs are `exact <lemma>` from P_C09.v / P_C09_lookat.v, checked against the models regenerated
   from /repo on this run (W.Gen_C09 default, W.Gen_C09_LH under GLM_FORCE_LEFT_HANDED).  Real-number semantics.
   decompose/recompose, interpolate, extractMatrixRotation, axisAngle: oracle only (DESIGN.md C09). *)
Require Import ZArith List String Bool Reals.
Import ListNotations.
From GLMV Require Import Expr SemR Cat Comm Chk SpecLinAlg SpecProj SpecGeom.
From W Require Gen_C09 Gen_C09_LH Gen_C09_ZO Gen_C09_LHZO P_C09 P_C09_lookat P_C09_rigid P_C09_t2.
Local Open Scope string_scope.
Theorem C09_translate_scale : P_C09.translate_scale_ok. Proof. exact P_C09.translate_scale_def. Qed.
Theorem C09_rotate_is_right_multiplication_by_rodrigues : P_C09.rotate_ok. Proof. exact P_C09.rotate_def. Qed.
Theorem C09_shear_fast_equals_slow : P_C09.shear_ok. Proof. exact P_C09.shear_def. Qed.
Theorem C09_matrix_transform_2d : P_C09.t2d_ok. Proof. exact P_C09.t2d_def. Qed.
Theorem C09_rotate_vector : P_C09.rv_ok. Proof. exact P_C09.rv_def. Qed.
Theorem C09_lookAtRH : P_C09_lookat.lookat_ok "lookAtRH" (-1). Proof. exact P_C09_lookat.lookAtRH_def. Qed.
Theorem C09_lookAtLH : P_C09_lookat.lookat_ok "lookAtLH" 1. Proof. exact P_C09_lookat.lookAtLH_def. Qed.
Theorem C09_lookAt_follows_configured_handedness :
  P_C09_lookat.same P_C09_lookat.cat P_C09_lookat.cat "lookAt" "lookAtRH" && P_C09_lookat.same Gen_C09_LH.catalogue Gen_C09_LH.catalogue "lookAt" "lookAtLH"
  && P_C09_lookat.same P_C09_lookat.cat Gen_C09_LH.catalogue "lookAtRH" "lookAtRH" && P_C09_lookat.same P_C09_lookat.cat Gen_C09_LH.catalogue "lookAtLH" "lookAtLH"
  && P_C09_lookat.same Gen_C09_ZO.catalogue P_C09_lookat.cat "lookAt" "lookAtRH" && P_C09_lookat.same Gen_C09_LHZO.catalogue P_C09_lookat.cat "lookAt" "lookAtLH"
  && P_C09_lookat.same Gen_C09_ZO.catalogue P_C09_lookat.cat "lookAtLH" "lookAtLH" && P_C09_lookat.same Gen_C09_LHZO.catalogue P_C09_lookat.cat "lookAtRH" "lookAtRH" = true.
Proof. exact P_C09_lookat.lookAt_dispatch. Qed.
(* gtx/transform2: 2D / 3D shears, reflections, projections and scaleBias are m times the elementary matrix they name *)
Theorem C09_gtx_transform2 : P_C09_t2.t2_ok. Proof. exact P_C09_t2.t2_def. Qed.
(* lookAt is a RIGID transform: orthonormal rows, determinant +1, last row (0,0,0,1), up mapped into the +y half-plane -- for eye <> center and up not
   parallel to the view direction *)
Theorem C09_lookAtRH_is_rigid : P_C09_rigid.rigid_ok Gen_C09.t_lookAtRH. Proof. exact P_C09_rigid.lookAtRH_rigid. Qed.
Theorem C09_lookAtLH_is_rigid : P_C09_rigid.rigid_ok Gen_C09.t_lookAtLH. Proof. exact P_C09_rigid.lookAtLH_rigid. Qed.
Print Assumptions C09_lookAtRH_is_rigid.
Print Assumptions C09_translate_scale.
Print Assumptions C09_rotate_is_right_multiplication_by_rodrigues.
Print Assumptions C09_lookAtRH.
Print Assumptions C09_lookAt_follows_configured_handedness.
