(* C07, half -> float: exact on all 65536 patterns, and float -> half inverts it (exhaustive, by vm_compute). *)
Require Import ZArith List Bool Lia.
Import ListNotations.
From GLMM Require Import Half.
Local Open Scope Z_scope.

Definition h2f_ok (h : Z) : bool :=
  let a := toFloat32 h in
  (0 <=? a) && (a <? 2 ^ 32) && (sign32 a =? sign16 h) &&
  (if is_nan16 h then is_nan32 a && (a mod 2 ^ 23 =? (h mod 1024) * 2 ^ 13)        (* NaN: sign and payload bits kept *)
   else if is_inf16 h then is_inf32 a
   else negb (is_nan32 a) && negb (is_inf32 a) && dy_eqb (dy32 a) (dy16 (h mod 2 ^ 15))) (* same real value *)
  && (toFloat16 a =? h).                                                             (* and it converts back to h *)
Lemma half_to_float_exact_all : forallb h2f_ok all16 = true.
Proof. vm_cast_no_check (eq_refl true). Qed.   (* one evaluation by the kernel's VM at Qed *)
Lemma all16_complete : forall h, 0 <= h < 65536 -> In h all16.
Proof.
  assert (G : forall n z h, z <= h < z + Z.of_nat n -> In h (zrange n z)).
  { induction n as [|n IH]; intros z h Hh; [lia|]. cbn [zrange]. destruct (Z.eq_dec h z) as [->|Hne]; [left; reflexivity|]. right. apply IH. lia. }
  intros h Hh. unfold all16. apply G. rewrite Z2Nat.id by lia. lia.
Qed.
Lemma half_to_float_exact : forall h, 0 <= h < 65536 -> h2f_ok h = true.
Proof. intros h Hh. apply (proj1 (forallb_forall h2f_ok all16) half_to_float_exact_all). apply all16_complete; exact Hh. Qed.
(* V16 is strictly increasing on magnitude codes 0..0x7c00 (0x7c00 = the overflow threshold 2^16): finite halves are ordered like their codes *)
Definition mag_codes : list Z := zrange (Z.to_nat 31744) 0.
Lemma V16_increasing_all : forallb (fun c => V16 c <? V16 (c + 1)) mag_codes = true.
Proof. vm_cast_no_check (eq_refl true). Qed.
Lemma V16_top : V16 31743 = 65504 * 2 ^ 24 /\ V16 31744 = 65536 * 2 ^ 24 /\ V16 1 = 1 /\ V16 1024 = 1024.
Proof. repeat split; vm_compute; reflexivity. Qed.
