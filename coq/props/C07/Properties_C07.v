(* Properties_C07.v -- C07: float <-> half conversion is exact one way and round-to-nearest the other.
   Statements about the hand-written model GLMM.Half (glm/detail/type_half.inl on bit patterns); the model is tied to the
   code on every run by the correspondence check (all 65536 half patterns through every unpack entry point, boundary
   families and random patterns for float->half through every pack entry point; the full 2^32 sweep in the thorough tier).
   Proofs are `exact <lemma>` from P_C07_h2f.v (exhaustive, finite domain) and P_C07_f2h.v (per exponent range,
   fraction symbolic: all 2^32 patterns). *)
Require Import ZArith List Bool.
From GLMM Require Import Half.
From W Require P_C07_h2f P_C07_f2h.
Local Open Scope Z_scope.

(* half -> float: sign kept; NaN payload kept; infinities kept; every finite half maps to the float with the same real
   value (signed zeros and subnormals included); converting back returns the same pattern *)
Theorem C07_half_to_float_exact_and_roundtrip : forall h, 0 <= h < 65536 -> P_C07_h2f.h2f_ok h = true.
Proof. exact P_C07_h2f.half_to_float_exact. Qed.
(* finite halves are ordered like their magnitude codes *)
Theorem C07_half_values_increasing : forallb (fun c => V16 c <? V16 (c + 1)) P_C07_h2f.mag_codes = true.
Proof. exact P_C07_h2f.V16_increasing_all. Qed.
(* float -> half, all exponents, fraction m arbitrary: the magnitude code lies between the midpoints to its neighbours *)
Theorem C07_underflow_to_zero : forall E m, 0 <= E < 102 -> 0 <= m < 2 ^ 23 -> toFloat16_fields 0 E m = 0 /\ 2 * V32 E m < U.
Proof. exact P_C07_f2h.underflow. Qed.
Theorem C07_nearest_subnormal_results : forall k m, 1 <= k <= 11 -> 0 <= m < 2 ^ 23 -> P_C07_f2h.between (113 - k) m.
Proof. exact P_C07_f2h.subnormal_range. Qed.
Theorem C07_nearest_normal_results_and_overflow_boundary : forall e m, 1 <= e <= 30 -> 0 <= m < 2 ^ 23 -> P_C07_f2h.between (e + 112) m.
Proof. exact P_C07_f2h.normal_range. Qed.
Theorem C07_overflow_infinity_nan : forall E m, 143 <= E < 256 -> 0 <= m < 2 ^ 23 ->
  (E < 255 -> toFloat16_fields 0 E m = 31744 /\ 2 ^ 16 * 2 ^ 125 <= V32 E m) /\
  (E = 255 -> m = 0 -> toFloat16_fields 0 E m = 31744) /\
  (E = 255 -> m <> 0 -> 31744 < toFloat16_fields 0 E m < 32768).
Proof. exact P_C07_f2h.overflow_inf_nan. Qed.
(* sign symmetry: the sign bit is copied, the magnitude code does not depend on it *)
Theorem C07_sign_symmetric : forall E m, toFloat16_fields 1 E m = 32768 + toFloat16_fields 0 E m.
Proof. intros E m. unfold toFloat16_fields. change (1 * 2 ^ 15) with 32768. change (0 * 2 ^ 15) with 0.
  destruct (E - 112 <=? 0); [destruct (E - 112 <? -10); [reflexivity|]; destruct (((m + 2 ^ 23) / 2 ^ (1 - (E - 112)) / 4096) mod 2 =? 1); ring|].
  destruct (E - 112 =? 143); [destruct (m =? 0); [reflexivity|]; destruct (m / 8192 =? 0); ring|].
  destruct ((m / 4096) mod 2 =? 1); [destruct (((m + 8192) / 2 ^ 23) mod 2 =? 1)|]; cbn [fst snd];
  match goal with |- context [30 <? ?e] => destruct (30 <? e) end; ring. Qed.
(* non-vacuity: a tie and a non-tie, evaluated *)
Example C07_examples : toFloat16 (Z.of_N 1065353216) = 15360 /\ toFloat32 15360 = 1065353216 /\ toFloat16 947904512 = 1024 /\ toFloat16 864026624 = 1.
Proof. repeat split; vm_compute; reflexivity. Qed.
Print Assumptions C07_half_to_float_exact_and_roundtrip.
Print Assumptions C07_nearest_normal_results_and_overflow_boundary.
Print Assumptions C07_nearest_subnormal_results.
Print Assumptions C07_sign_symmetric.
