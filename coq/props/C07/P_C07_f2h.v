(* C07, float -> half: round to nearest for every float.  For a float with biased exponent E and fraction m
   (magnitude x = V32 E m, in units of 2^-149) the result code r = toFloat16_fields 0 E m satisfies
       V16(r-1) + V16(r) <= 2x/U <= V16(r) + V16(r+1)        (U = 2^125: V16 is in units of 2^-24)
   i.e. x lies between the midpoints to the neighbouring halves (either neighbour on an exact tie), with the first
   inequality dropped at r = 0 and the second at r = 0x7c00 (= overflow to infinity, reached exactly when x is at or
   beyond the midpoint 65520 between the largest half 65504 and 2^16).  One lemma per exponent, fraction symbolic. *)
Require Import ZArith List Bool Lia.
Import ListNotations.
From GLMM Require Import Half.
Local Open Scope Z_scope.
Ltac Zify.zify_post_hook ::= Z.div_mod_to_equations.

Definition between (E m : Z) : Prop :=
  let r := toFloat16_fields 0 E m in let x2 := 2 * V32 E m in
  0 <= r <= 31744 /\ (1 <= r -> (V16 (r - 1) + V16 r) * U <= x2) /\ (r < 31744 -> x2 <= (V16 r + V16 (r + 1)) * U).

(* magnitudes below half the smallest subnormal half (2^-25) become zero *)
Lemma underflow : forall E m, 0 <= E < 102 -> 0 <= m < 2 ^ 23 -> toFloat16_fields 0 E m = 0 /\ 2 * V32 E m < U.
Proof.
  intros E m HE Hm. unfold toFloat16_fields. replace (E - 112 <=? 0) with true by (symmetry; apply Z.leb_le; lia).
  replace (E - 112 <? -10) with true by (symmetry; apply Z.ltb_lt; lia). split; [reflexivity|].
  unfold V32, U. destruct (E =? 0) eqn:E0.
  - assert (2 ^ 23 < 2 ^ 124) by (apply Z.pow_lt_mono_r; lia). lia.
  - apply Z.eqb_neq in E0. assert (2 ^ (E - 1) <= 2 ^ 100) by (apply Z.pow_le_mono_r; lia).
    replace (2 ^ 125) with (2 ^ 25 * 2 ^ 100) by (rewrite <- Z.pow_add_r by lia; reflexivity). nia.
Qed.
(* infinities and NaN; floats with exponent >= 143 (>= 2^16) overflow to infinity *)
Lemma overflow_inf_nan : forall E m, 143 <= E < 256 -> 0 <= m < 2 ^ 23 ->
  (E < 255 -> toFloat16_fields 0 E m = 31744 /\ 2 ^ 16 * 2 ^ 125 <= V32 E m) /\
  (E = 255 -> m = 0 -> toFloat16_fields 0 E m = 31744) /\
  (E = 255 -> m <> 0 -> 31744 < toFloat16_fields 0 E m < 32768).
Proof.
  intros E m HE Hm. unfold toFloat16_fields. replace (E - 112 <=? 0) with false by (symmetry; apply Z.leb_gt; lia).
  split; [intros H255; split | split].
  - replace (E - 112 =? 143) with false by (symmetry; apply Z.eqb_neq; lia).
    destruct ((m / 4096) mod 2 =? 1); [destruct (((m + 8192) / 2 ^ 23) mod 2 =? 1)|]; cbn [fst snd];
    match goal with |- context [30 <? ?e] => replace (30 <? e) with true by (symmetry; apply Z.ltb_lt; lia) end; reflexivity.
  - unfold V32. replace (E =? 0) with false by (symmetry; apply Z.eqb_neq; lia).
    assert (2 ^ 142 <= 2 ^ (E - 1)) by (apply Z.pow_le_mono_r; lia).
    replace (2 ^ 16 * 2 ^ 125) with (2 ^ 23 * 2 ^ 118) by (rewrite <- !Z.pow_add_r by lia; reflexivity).
    assert (2 ^ 118 <= 2 ^ 142) by (apply Z.pow_le_mono_r; lia). nia.
  - intros -> ->. reflexivity.
  - intros -> Hm0. change (255 - 112 =? 143) with true. cbv iota. destruct (m =? 0) eqn:M0; [apply Z.eqb_eq in M0; lia|].
    assert (m / 8192 < 1024) by (apply Z.div_lt_upper_bound; lia). assert (0 <= m / 8192) by (apply Z.div_pos; lia).
    destruct (m / 8192 =? 0) eqn:Q0; [apply Z.eqb_eq in Q0; lia | lia].
Qed.

(* V16 on the first two binades is the identity; in general V16 (e*1024 + q) = (1024 + q) * 2^(e-1) *)
Lemma V16_small c : 0 <= c < 2048 -> V16 c = c.
Proof.
  intros H. unfold V16. destruct (c <? 1024) eqn:E; [reflexivity|]. apply Z.ltb_ge in E.
  assert (H0 : c / 1024 = 1) by lia. assert (H1 : c mod 1024 = c - 1024) by lia. rewrite H0, H1. change (2 ^ (1 - 1)) with 1. lia.
Qed.
Lemma V16_code e q : 1 <= e -> 0 <= q <= 1024 -> V16 (e * 1024 + q) = (1024 + q) * 2 ^ (e - 1).
Proof.
  intros He Hq. unfold V16. replace (e * 1024 + q <? 1024) with false by (symmetry; apply Z.ltb_ge; nia).
  destruct (Z.eq_dec q 1024) as [->|Hne].
  - assert (H1 : (e * 1024 + 1024) mod 1024 = 0) by lia. assert (H2 : (e * 1024 + 1024) / 1024 = e + 1) by lia. rewrite H1, H2.
    replace (e + 1 - 1) with (Z.succ (e - 1)) by lia. rewrite Z.pow_succ_r by lia. ring.
  - assert (H1 : (e * 1024 + q) mod 1024 = q) by lia. assert (H2 : (e * 1024 + q) / 1024 = e) by lia. rewrite H1, H2. ring.
Qed.

(* subnormal results: E = 113 - k, k = 1..11.  The code computes round-half-up of M / 2^(k+13), M = 2^23 + m *)
Lemma fields_subnormal k m : 1 <= k <= 11 -> 0 <= m < 2 ^ 23 ->
  toFloat16_fields 0 (113 - k) m = ((m + 2 ^ 23) / 2 ^ k + 4096) / 8192.
Proof.
  intros Hk Hm. unfold toFloat16_fields.
  replace (113 - k - 112 <=? 0) with true by (symmetry; apply Z.leb_le; lia).
  replace (113 - k - 112 <? -10) with false by (symmetry; apply Z.ltb_ge; lia).
  replace (1 - (113 - k - 112)) with k by lia.
  set (m1 := (m + 2 ^ 23) / 2 ^ k). assert (0 <= m1) by (apply Z.div_pos; [lia | apply Z.pow_pos_nonneg; lia]).
  destruct ((m1 / 4096) mod 2 =? 1) eqn:Hb; [apply Z.eqb_eq in Hb | apply Z.eqb_neq in Hb]; lia.
Qed.
Lemma subnormal_range : forall k m, 1 <= k <= 11 -> 0 <= m < 2 ^ 23 -> between (113 - k) m.
Proof.
  intros k m Hk Hm. unfold between. rewrite (fields_subnormal k m Hk Hm).
  unfold V32. replace (113 - k =? 0) with false by (symmetry; apply Z.eqb_neq; lia). replace (113 - k - 1) with (112 - k) by lia.
  replace (2 ^ 23 + m) with (m + 2 ^ 23) by ring. set (M := m + 2 ^ 23). set (P := 2 ^ k). set (Q := 2 ^ (112 - k)).
  assert (HP : 0 < P) by (apply Z.pow_pos_nonneg; lia). assert (HQ : 0 < Q) by (apply Z.pow_pos_nonneg; lia).
  assert (HPQ : P * Q = 2 ^ 112) by (unfold P, Q; rewrite <- Z.pow_add_r by lia; f_equal; lia).
  assert (HU : U = 8192 * (P * Q)) by (rewrite HPQ; reflexivity).
  set (m1 := M / P). assert (Hm1 : P * m1 <= M < P * m1 + P) by (unfold m1; pose proof (Z.mul_div_le M P HP); pose proof (Z.mul_succ_div_gt M P HP); lia).
  assert (HM : 2 ^ 23 <= M < 2 ^ 24) by (unfold M; change (2 ^ 24) with (2 * 2 ^ 23); lia).
  assert (HP2 : 2 <= P <= 2048) by (unfold P; split; [change 2 with (2 ^ 1) at 1 | change 2048 with (2 ^ 11)]; apply Z.pow_le_mono_r; lia).
  assert (Hm1b : 0 <= m1 < 2 ^ 23) by (change (2 ^ 24) with (2 * 2 ^ 23) in HM; nia).
  set (r := (m1 + 4096) / 8192). assert (Hr : 8192 * r <= m1 + 4096 < 8192 * r + 8192) by (unfold r; lia).
  assert (Hr0 : 0 <= r <= 1024) by (change (2 ^ 23) with 8388608 in Hm1b; lia).
  rewrite HU. clearbody r. clearbody m1. clearbody P Q. clearbody M. clear HU. split; [lia|]. split.
  - intros Hr1. rewrite !V16_small by lia.
    assert (K : (2 * r - 1) * 8192 * P <= 2 * M) by nia.
    apply Z.le_trans with (Q * ((2 * r - 1) * 8192 * P)); [apply Z.eq_le_incl; ring|].
    apply Z.le_trans with (Q * (2 * M)); [apply Z.mul_le_mono_nonneg_l; lia | apply Z.eq_le_incl; ring].
  - intros Hr2. rewrite !V16_small by lia.
    assert (K : 2 * M <= (2 * r + 1) * 8192 * P) by nia.
    apply Z.le_trans with (Q * (2 * M)); [apply Z.eq_le_incl; ring|].
    apply Z.le_trans with (Q * ((2 * r + 1) * 8192 * P)); [apply Z.mul_le_mono_nonneg_l; lia | apply Z.eq_le_incl; ring].
Qed.

(* normal results: E = e + 112, e = 1..30 *)
Lemma fields_normal e m : 1 <= e <= 30 -> 0 <= m < 2 ^ 23 ->
  toFloat16_fields 0 (e + 112) m = e * 1024 + (m + 4096) / 8192.
Proof.
  intros He Hm. unfold toFloat16_fields.
  replace (e + 112 - 112) with e by lia.
  replace (e <=? 0) with false by (symmetry; apply Z.leb_gt; lia). replace (e =? 143) with false by (symmetry; apply Z.eqb_neq; lia).
  change (2 ^ 23) with 8388608 in *.
  destruct ((m / 4096) mod 2 =? 1) eqn:Hb; [apply Z.eqb_eq in Hb | apply Z.eqb_neq in Hb].
  - destruct (((m + 8192) / 8388608) mod 2 =? 1) eqn:Hc; [apply Z.eqb_eq in Hc | apply Z.eqb_neq in Hc]; cbn [fst snd].
    + assert ((m + 4096) / 8192 = 1024) by lia. destruct (30 <? e + 1) eqn:Ho; [apply Z.ltb_lt in Ho | apply Z.ltb_ge in Ho]; lia.
    + replace (30 <? e) with false by (symmetry; apply Z.ltb_ge; lia). lia.
  - cbn [fst snd]. replace (30 <? e) with false by (symmetry; apply Z.ltb_ge; lia). lia.
Qed.
Lemma normal_range : forall e m, 1 <= e <= 30 -> 0 <= m < 2 ^ 23 -> between (e + 112) m.
Proof.
  intros e m He Hm. unfold between. rewrite (fields_normal e m He Hm).
  unfold V32. replace (e + 112 =? 0) with false by (symmetry; apply Z.eqb_neq; lia). replace (e + 112 - 1) with (e - 1 + 112) by lia.
  rewrite Z.pow_add_r by lia. set (P := 2 ^ (e - 1)). set (W := 2 ^ 112).
  assert (HP : 0 < P) by (apply Z.pow_pos_nonneg; lia). assert (HW : 0 < W) by (apply Z.pow_pos_nonneg; lia).
  assert (HU : U = 8192 * W) by reflexivity.
  change (2 ^ 23) with 8388608 in *.
  set (q := (m + 4096) / 8192). assert (Hq : 8192 * q <= m + 4096 < 8192 * q + 8192) by (unfold q; lia). assert (Hq0 : 0 <= q <= 1024) by lia.
  rewrite HU. clear HU. split; [nia|]. split.
  - intros _. rewrite (V16_code e q) by lia. fold P.
    assert (Hprev : V16 (e * 1024 + q - 1) * 2 = if q =? 0 then (if e =? 1 then 2046 else 2047 * P) else (1024 + q - 1) * 2 * P).
    { destruct (q =? 0) eqn:Q0; [apply Z.eqb_eq in Q0 | apply Z.eqb_neq in Q0].
      - subst q. rewrite Q0. destruct (e =? 1) eqn:E1; [apply Z.eqb_eq in E1 | apply Z.eqb_neq in E1].
        + subst e. change (1 * 1024 + 0 - 1) with 1023. rewrite V16_small by lia. reflexivity.
        + replace (e * 1024 + 0 - 1) with ((e - 1) * 1024 + 1023) by lia. rewrite V16_code by lia.
          unfold P. replace (e - 1) with (Z.succ (e - 1 - 1)) at 2 by lia. rewrite Z.pow_succ_r by lia. ring.
      - replace (e * 1024 + q - 1) with (e * 1024 + (q - 1)) by lia. rewrite V16_code by lia. fold P. ring. }
    assert (K : (V16 (e * 1024 + q - 1) * 2 + (1024 + q) * 2 * P) * 4096 <= 2 * (8388608 + m) * P).
    { rewrite Hprev. destruct (q =? 0) eqn:Q0; [apply Z.eqb_eq in Q0 | apply Z.eqb_neq in Q0].
      - destruct (e =? 1) eqn:E1; [apply Z.eqb_eq in E1; subst e; change P with 1 in *; lia | nia].
      - nia. }
    apply Z.le_trans with (W * ((V16 (e * 1024 + q - 1) * 2 + (1024 + q) * 2 * P) * 4096)); [apply Z.eq_le_incl; ring|].
    apply Z.le_trans with (W * (2 * (8388608 + m) * P)); [apply Z.mul_le_mono_nonneg_l; lia | apply Z.eq_le_incl; ring].
  - intros Hlt. rewrite (V16_code e q) by lia. fold P.
    replace (e * 1024 + q + 1) with (e * 1024 + (q + 1)) by lia.
    destruct (Z.eq_dec q 1024) as [Q1|Q1].
    + (* carry into the next binade: r = (e+1)*1024, r + 1 = (e+1)*1024 + 1 *)
      assert (e <= 29) by lia. replace (e * 1024 + (q + 1)) with ((e + 1) * 1024 + 1) by lia. rewrite V16_code by lia.
      replace (e + 1 - 1) with (Z.succ (e - 1)) by lia. rewrite Z.pow_succ_r by lia. fold P.
      assert (K : 2 * (8388608 + m) * P <= ((1024 + q) + 2050) * 8192 * P) by nia.
      apply Z.le_trans with (W * (2 * (8388608 + m) * P)); [apply Z.eq_le_incl; ring|].
      apply Z.le_trans with (W * (((1024 + q) + 2050) * 8192 * P)); [apply Z.mul_le_mono_nonneg_l; lia | apply Z.eq_le_incl; ring].
    + rewrite V16_code by lia. fold P.
      assert (K : 2 * (8388608 + m) * P <= (2 * (1024 + q) + 1) * 8192 * P) by nia.
      apply Z.le_trans with (W * (2 * (8388608 + m) * P)); [apply Z.eq_le_incl; ring|].
      apply Z.le_trans with (W * ((2 * (1024 + q) + 1) * 8192 * P)); [apply Z.mul_le_mono_nonneg_l; lia | apply Z.eq_le_incl; ring].
Qed.
