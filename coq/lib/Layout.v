(* Layout.v -- the documented storage-layout contract of vec / mat / qua (manual sections 2.9, 2.10, 2.18, 2.21, 4.18) as a
   boolean predicate over the layout facts that tools/layout extracts from the C++ compiler for one configuration, and the
   consequences a user relies on (contiguity, column-major order, value_ptr indexing).  Sizes and offsets are in bytes. *)
Require Import ZArith List Bool String Lia.
Import ListNotations.
Local Open Scope Z_scope.

Record config := { aligned_gentypes : bool; simd : bool; xyzw_only : bool; anonymous_struct : bool; swizzle : Z; length_size_t : bool; quat_wxyz : bool; default_aligned : bool }.
Inductive rec :=
| Vec (L : nat) (ty q : string) (al : bool) (es size align : Z) (offs : list Z) (offx vp len lensize : Z) (rt : bool)
| Mat (C R : nat) (ty q : string) (al : bool) (es size align colsize colalign : Z) (offs : list Z) (vp len lensize : Z) (rt : bool)
| Qua (ty q : string) (al : bool) (es size align ox oy oz ow : Z) (offs : list Z) (vp len lensize : Z) (rt : bool)
| Make (ty : string) (rt : bool).

Fixpoint list_eqb (a b : list Z) : bool := match a, b with [] , [] => true | x :: a', y :: b' => (x =? y) && list_eqb a' b' | _, _ => false end.
Lemma list_eqb_eq a : forall b, list_eqb a b = true -> a = b.
Proof. induction a as [|x a IH]; intros [|y b] H; cbn in H; try discriminate; [reflexivity|]. apply andb_true_iff in H as [H1 H2]. apply Z.eqb_eq in H1. subst. f_equal. now apply IH. Qed.
(* is the type stored aligned?  the aligned_* qualifiers, and defaultp under GLM_FORCE_DEFAULT_ALIGNED_GENTYPES *)
Definition is_aligned (cfg : config) (q : string) (al : bool) : bool := al || (default_aligned cfg && String.eqb q "defaultp").
(* an aligned vecL<T> occupies n = (L = 3 ? 4 : L) elements and is aligned to that size ("aligned GLM types align addresses based
   on the size of the value type": aligned float vec3/vec4 16 bytes 16-aligned, vec2 8, a 32-byte vector 32).  The only exceptions are
   the 32-byte types GLM stores in a pair of SSE registers when SIMD is on: double vec3 / vec4 / quaternion without AVX, and uvec3 of
   64-bit elements (storage<3, uint64, true>) -- these are 16-byte aligned.  A packed one is L contiguous T aligned as T *)
Definition vec_elems (L : nat) (a : bool) : Z := if a && Nat.eqb L 3 then 4 else Z.of_nat L.
Definition vec_size (L : nat) (a : bool) (es : Z) : Z := vec_elems L a * es.
Definition sse_pair (cfg : config) (L : nat) (ty : string) (sz align : Z) : bool :=
  simd cfg && (sz =? 32) && (align =? 16) && (String.eqb ty "f64" || (String.eqb ty "u64" && Nat.eqb L 3)).
Definition vec_align_ok (cfg : config) (ty : string) (L : nat) (a : bool) (es align : Z) : bool :=
  if a then let sz := vec_elems L a * es in (align =? sz) || sse_pair cfg L ty sz align else align =? es.
Definition contiguous (n : nat) (es : Z) : list Z := map (fun i => Z.of_nat i * es) (seq 0 n).
Definition mat_offsets (C R : nat) (colsize es : Z) : list Z := flat_map (fun c => map (fun r => Z.of_nat c * colsize + Z.of_nat r * es) (seq 0 R)) (seq 0 C).

Definition rec_ok (cfg : config) (r : rec) : bool :=
  match r with
  | Vec L ty q al es size align offs offx vp len lensize rt =>
      let a := is_aligned cfg q al in
      (size =? vec_size L a es) && vec_align_ok cfg ty L a es align && list_eqb offs (contiguous L es) && (offx =? 0) && (vp =? 0) &&
      (len =? Z.of_nat L) && (lensize =? (if length_size_t cfg then 8 else 4)) && rt
  | Mat C R ty q al es size align colsize colalign offs vp len lensize rt =>
      let a := is_aligned cfg q al in
      (colsize =? vec_size R a es) && vec_align_ok cfg ty R a es colalign && (size =? Z.of_nat C * colsize) && (align =? colalign) &&
      list_eqb offs (mat_offsets C R colsize es) && (vp =? 0) && (len =? Z.of_nat C) && (lensize =? (if length_size_t cfg then 8 else 4)) && rt
  | Qua ty q al es size align ox oy oz ow offs vp len lensize rt =>
      let a := is_aligned cfg q al in
      (size =? 4 * es) && vec_align_ok cfg ty 4 a es align &&
      (if quat_wxyz cfg then list_eqb [ow; ox; oy; oz] (contiguous 4 es) else list_eqb [ox; oy; oz; ow] (contiguous 4 es)) &&
      list_eqb offs (contiguous 4 es) && (vp =? 0) && (len =? 4) && (lensize =? (if length_size_t cfg then 8 else 4)) && rt
  | Make ty rt => rt
  end.

(* ---- consequences *)
Lemma nth_map_seq (f : nat -> Z) n i d : (i < n)%nat -> nth i (map f (seq 0 n)) d = f i.
Proof. intros H. rewrite (nth_indep _ d (f 0%nat)) by (rewrite map_length, seq_length; exact H). rewrite map_nth, seq_nth by exact H. reflexivity. Qed.
Lemma nth_contiguous n es i : (i < n)%nat -> nth i (contiguous n es) 0 = Z.of_nat i * es.
Proof.
  intros H. unfold contiguous. now rewrite nth_map_seq.
Qed.
(* a vector is its components in order, one element apart:  &v[i] = &v + i * sizeof(T) = &v.x + i  and value_ptr(v) = &v *)
Theorem vec_contiguous cfg L ty q al es size align offs offx vp len lensize rt :
  rec_ok cfg (Vec L ty q al es size align offs offx vp len lensize rt) = true ->
  (forall i, (i < L)%nat -> nth i offs 0 = Z.of_nat i * es) /\ offx = 0 /\ vp = 0 /\ len = Z.of_nat L /\ (is_aligned cfg q al = false -> size = Z.of_nat L * es).
Proof.
  cbn [rec_ok]. intros H. repeat (apply andb_true_iff in H as [H ?]).
  match goal with E : list_eqb offs _ = true |- _ => apply list_eqb_eq in E; subst offs end.
  repeat match goal with E : (_ =? _) = true |- _ => apply Z.eqb_eq in E end. repeat split; try assumption.
  - intros i Hi. now apply nth_contiguous.
  - intros Ha. subst size. unfold vec_size, vec_elems. rewrite Ha. reflexivity.
Qed.
Lemma nth_mat_offsets C R colsize es c r : (c < C)%nat -> (r < R)%nat ->
  nth (c * R + r) (mat_offsets C R colsize es) 0 = Z.of_nat c * colsize + Z.of_nat r * es.
Proof.
  unfold mat_offsets. intros Hc Hr.
  assert (G : forall C0 c0 s, (c0 < C0)%nat -> nth (c0 * R + r) (flat_map (fun k => map (fun r0 => Z.of_nat k * colsize + Z.of_nat r0 * es) (seq 0 R)) (seq s C0)) 0
                                  = Z.of_nat (s + c0) * colsize + Z.of_nat r * es).
  { induction C0 as [|C0 IH]; intros c0 s Hc0; [lia|]. cbn [seq flat_map].
    destruct c0 as [|c0].
    - rewrite app_nth1 by (rewrite map_length, seq_length; lia). cbn [Nat.mul Nat.add].
      rewrite nth_map_seq by exact Hr. rewrite Nat.add_0_r. reflexivity.
    - rewrite app_nth2 by (rewrite map_length, seq_length; lia). rewrite map_length, seq_length.
      replace (S c0 * R + r - R)%nat with (c0 * R + r)%nat by lia. rewrite IH by lia. f_equal. f_equal. lia. }
  rewrite G by exact Hc. reflexivity.
Qed.
(* a matrix is C consecutive columns; for a packed matrix value_ptr(m)[c*R + r] is m[c][r] *)
Theorem mat_column_major cfg C R ty q al es size align colsize colalign offs vp len lensize rt :
  rec_ok cfg (Mat C R ty q al es size align colsize colalign offs vp len lensize rt) = true ->
  (forall c r, (c < C)%nat -> (r < R)%nat -> nth (c * R + r) offs 0 = Z.of_nat c * colsize + Z.of_nat r * es) /\ vp = 0 /\ size = Z.of_nat C * colsize /\
  (is_aligned cfg q al = false -> forall c r, (c < C)%nat -> (r < R)%nat -> nth (c * R + r) offs 0 = Z.of_nat (c * R + r) * es).
Proof.
  cbn [rec_ok]. intros H. repeat (apply andb_true_iff in H as [H ?]).
  match goal with E : list_eqb offs _ = true |- _ => apply list_eqb_eq in E; subst offs end.
  repeat match goal with E : (_ =? _) = true |- _ => apply Z.eqb_eq in E end. repeat split; try assumption.
  - intros c r Hc Hr. now apply nth_mat_offsets.
  - intros Ha c r Hc Hr. rewrite nth_mat_offsets by assumption. subst colsize. unfold vec_size, vec_elems. rewrite Ha. cbn [andb]. rewrite Nat2Z.inj_add, Nat2Z.inj_mul. ring.
Qed.
(* quaternion memory order *)
Theorem qua_order cfg ty q al es size align ox oy oz ow offs vp len lensize rt :
  rec_ok cfg (Qua ty q al es size align ox oy oz ow offs vp len lensize rt) = true ->
  (if quat_wxyz cfg then ow = 0 /\ ox = es /\ oy = 2 * es /\ oz = 3 * es else ox = 0 /\ oy = es /\ oz = 2 * es /\ ow = 3 * es) /\ size = 4 * es /\ vp = 0.
Proof.
  cbn [rec_ok]. destruct (quat_wxyz cfg); intros H; repeat (apply andb_true_iff in H as [H ?]);
  repeat match goal with E : (_ =? _) = true |- _ => apply Z.eqb_eq in E end; (split; [|split; assumption]);
  match goal with E : list_eqb [_; _; _; _] _ = true |- _ => unfold contiguous in E; cbn [map seq list_eqb] in E; repeat (apply andb_true_iff in E as [? E]) end;
  repeat match goal with E : (_ =? _) = true |- _ => apply Z.eqb_eq in E end; repeat split; lia.
Qed.
