(* SpecGeom.v -- Euclidean definitions for C12/C04/C09/C13 as expression trees over the inputs. *)
Require Import ZArith List String Bool Reals.
Import ListNotations.
From GLMV Require Import Expr SemR Cat SpecLinAlg SpecProj.
Local Open Scope Z_scope.

Definition vecv (a L : Z) : list expr := map (fun i => V F32 a i) (zseq L).
(* left-associated sum  ((x0 + x1) + x2) + ...  (the association GLM uses for vec2/vec3 dot products) *)
Definition sum_e (l : list expr) : expr := match l with [] => ec 0 | x :: r => fold_left eadd r x end.
Definition dot_e (u v : list expr) : expr := sum_e (map (fun p => emul (fst p) (snd p)) (combine u v)).
Definition sub_v (u v : list expr) : list expr := map (fun p => esub (fst p) (snd p)) (combine u v).
Definition scale_v (s : expr) (v : list expr) : list expr := map (fun x => emul s x) v.
Definition cross_e (a b : list expr) : list expr :=
  [esub (emul (nth_e a 1) (nth_e b 2)) (emul (nth_e a 2) (nth_e b 1));
   esub (emul (nth_e a 2) (nth_e b 0)) (emul (nth_e a 0) (nth_e b 2));
   esub (emul (nth_e a 0) (nth_e b 1)) (emul (nth_e a 1) (nth_e b 0))].
(* reflect(I,N) = I - 2 dot(N,I) N *)
Definition reflect_e (i n : list expr) : list expr := sub_v i (scale_v (emul (ec 2) (dot_e n i)) n).
(* refract: k = 1 - eta^2 (1 - dot(N,I)^2);  eta I - (eta dot(N,I) + sqrt k) N *)
Definition refract_k (i n : list expr) (eta : expr) : expr := esub (ec 1) (emul (emul eta eta) (esub (ec 1) (emul (dot_e n i) (dot_e n i)))).
Definition refract_e (i n : list expr) (eta sqrtk : expr) : list expr := sub_v (scale_v eta i) (scale_v (eadd (emul eta (dot_e n i)) sqrtk) n).

Definition all_zero (l : list expr) : bool := forallb (fun e => match e with Cf _ _ 0 _ => true | _ => false end) l.
Definition eqR (env : renv) (a b : list expr) : Prop := map (evalR env) a = map (evalR env) b.
