(* SpecProj.v -- clip-space conventions (C08), written independently of GLM.
   A 4x4 matrix is a list of 16 expressions, column-major: element [c][r] at index 4c+r. *)
Require Import ZArith List String Bool Reals.
Import ListNotations.
From GLMV Require Import Expr SemR Cat SpecLinAlg.
Local Open Scope Z_scope.

Definition k32 := F32.
Definition eadd (a b : expr) := B Add k32 a b.
Definition esub (a b : expr) := B Sub k32 a b.
Definition emul (a b : expr) := B Mul k32 a b.
Definition ediv (a b : expr) := B Div k32 a b.
Definition eneg (a : expr) := U Neg k32 a.
Definition ec (z : Z) : expr := Cf k32 (z <? 0) (Z.abs z) 0.
(* P * v for a column vector v of 4 expressions *)
Definition mat_vec4 (P v : list expr) : list expr :=
  map (fun r => eadd (eadd (eadd (emul (nth_e P r) (nth_e v 0)) (emul (nth_e P (4 + r)) (nth_e v 1))) (emul (nth_e P (8 + r)) (nth_e v 2))) (emul (nth_e P (12 + r)) (nth_e v 3))) [0; 1; 2; 3].

(* conventions: RH looks down -z (view-space z of a point at distance d is -d), LH down +z;
   NO maps near/far to -1/+1, ZO to 0/+1 *)
Inductive hand := RH | LH.
Inductive depth := NO | ZO.
Definition zview (h : hand) (d : expr) : expr := match h with RH => eneg d | LH => d end.
Definition ndc_near (z : depth) : expr := match z with NO => ec (-1) | ZO => ec 0 end.

(* the eight (corner, expected NDC) pairs of a view volume.  xs/ys: functions giving the x (y) extent on
   the plane at distance d (orthographic: constant; frustum: scaled by d/n) *)
Definition corners (h : hand) (z : depth) (xl xr yb yt : expr -> expr) (n f : expr) : list (list expr * list expr) :=
  flat_map (fun dz : expr * expr => let '(d, nz) := dz in
    flat_map (fun xs : (expr -> expr) * expr => let '(x, nx) := xs in
      map (fun ys : (expr -> expr) * expr => let '(y, ny) := ys in
        ([x d; y d; zview h d; ec 1], [nx; ny; nz])) [(yb, ec (-1)); (yt, ec 1)]) [(xl, ec (-1)); (xr, ec 1)])
    [(n, ndc_near z); (f, ec 1)].

(* goals for one corner: clip = P*pt must satisfy clip.xyz = ndc * clip.w and clip.w = wexp *)
Definition corner_goals (P : list expr) (wexp : list expr -> expr) (c : list expr * list expr) : list (expr * expr) :=
  let '(pt, ndc) := c in
  let clip := mat_vec4 P pt in
  [(nth_e clip 0, emul (nth_e ndc 0) (nth_e clip 3)); (nth_e clip 1, emul (nth_e ndc 1) (nth_e clip 3));
   (nth_e clip 2, emul (nth_e ndc 2) (nth_e clip 3)); (nth_e clip 3, wexp pt)].

Definition holdsR (env : renv) (g : list (expr * expr)) : Prop := Forall (fun p => evalR env (fst p) = evalR env (snd p)) g.
