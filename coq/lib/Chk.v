(* Chk.v -- reflexive catalogue checks and their semantic meaning. *)
Require Import ZArith List String Bool Reals Lia.
Import ListNotations.
From GLMV Require Import Expr SemR SemZ Cat Comm.
Local Open Scope Z_scope.

(* the entry exists, has no branches and no preconditions, and its outputs are the given expressions
   up to the operand order of commutative operators *)
Definition chk (cat : list (string * tree)) (nm : string) (spec : list expr) : bool :=
  match outs_of cat nm with Some o => list_eqc o spec | None => false end.
(* ... exactly the given expressions *)
Definition chk_syn (cat : list (string * tree)) (nm : string) (spec : list expr) : bool :=
  match outs_of cat nm with Some o => list_eqb o spec | None => false end.

Lemma chk_sound_R cat nm spec : chk cat nm spec = true ->
  exists outs, outs_of cat nm = Some outs /\ forall env, map (evalR env) outs = map (evalR env) spec.
Proof. unfold chk. destruct (outs_of cat nm) as [o|]; [|discriminate]. intros H. exists o. split; [reflexivity|]. intros env. apply list_eqc_sound_R; assumption. Qed.

Lemma chk_sound_Z cat nm spec : chk cat nm spec = true ->
  exists outs, outs_of cat nm = Some outs /\ forall s env, omap (evalZ s env) outs = omap (evalZ s env) spec.
Proof. unfold chk. destruct (outs_of cat nm) as [o|]; [|discriminate]. intros H. exists o. split; [reflexivity|]. intros s env. apply list_eqc_sound_Z; assumption. Qed.

Lemma chk_syn_sound cat nm spec : chk_syn cat nm spec = true -> outs_of cat nm = Some spec.
Proof. unfold chk_syn. destruct (outs_of cat nm) as [o|]; [|discriminate]. intros H. apply list_eqb_eq in H. subst; reflexivity. Qed.

(* boolean-valued decision trees (operator==, relational functions): value of the tree as a boolean *)
Fixpoint tree_boolR (env : renv) (t : tree) : option bool :=
  match t with
  | Leaf [] [Cz KB z] => Some (negb (z =? 0))
  | Leaf [] [e] => Some (evalRB env e)
  | Br c t f => if evalRB env c then tree_boolR env t else tree_boolR env f
  | _ => None
  end.
Fixpoint tree_boolZ (env : zenv) (t : tree) : option bool :=
  match t with
  | Leaf [] [Cz KB z] => Some (negb (z =? 0))
  | Br c t f => match evalZB false env c with Some true => tree_boolZ env t | Some false => tree_boolZ env f | None => None end
  | _ => None
  end.

(* value of a selection-type expression (inputs, integer constants, casts) on the tag environment
   component i of argument a = 10(a+1)+i+1 : used to print concrete expected values for replays *)
Fixpoint evalTag (e : expr) : option Z :=
  match e with
  | V _ a i => Some (10 * (a + 1) + i + 1)
  | Cz _ z => Some z
  | Cf _ s m 0 => Some (if s then - m else m)
  | Cv _ _ x => evalTag x
  | _ => None
  end.
