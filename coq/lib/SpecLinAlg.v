(* SpecLinAlg.v -- textbook column-major definitions, written independently of GLM.
   A C-column, R-row matrix passed as argument a is the variables (a, c*R + r). *)
Require Import ZArith List String Bool Reals.
Import ListNotations.
From GLMV Require Import Expr SemR SemZ Cat.
Local Open Scope Z_scope.

Definition shapes9 : list (Z * Z) := [(2,2);(2,3);(2,4);(3,2);(3,3);(3,4);(4,2);(4,3);(4,4)].
(* (K, Rn, C): left operand K columns x R rows, right operand C columns x K rows *)
Definition shapes27 : list (Z * Z * Z) := flat_map (fun '(K, Rn) => map (fun C => (K, Rn, C)) [2;3;4]) shapes9.

Section Generic.
  Context {A : Type} (zero one : A) (add mul : A -> A -> A).
  Fixpoint gsum (n : nat) (f : Z -> A) : A := match n with O => zero | S n' => add (gsum n' f) (f (Z.of_nat n')) end.
  (* (A*B)[c][r] = sum_k A[k][r] * B[c][k] *)
  Definition mm_gen (K Rn C : Z) (a b : Z -> A) : list A :=
    flat_map (fun c => map (fun r => gsum (Z.to_nat K) (fun k => mul (a (k * Rn + r)) (b (c * K + k)))) (zseq Rn)) (zseq C).
  (* (M*v)[r] = sum_c M[c][r] * v[c] *)
  Definition mv_gen (C Rn : Z) (m v : Z -> A) : list A :=
    map (fun r => gsum (Z.to_nat C) (fun c => mul (m (c * Rn + r)) (v c))) (zseq Rn).
  (* (v*M)[c] = sum_r v[r] * M[c][r] *)
  Definition vm_gen (C Rn : Z) (v m : Z -> A) : list A :=
    map (fun c => gsum (Z.to_nat Rn) (fun r => mul (v r) (m (c * Rn + r)))) (zseq C).
End Generic.

(* the same definitions as expression trees over the inputs: one specification for every semantics *)
Definition one_of (k : kind) : expr := if is_float k then Cf k false 1 0 else Cz k 1.
Definition zero_of (k : kind) : expr := if is_float k then Cf k false 0 0 else Cz k 0.
Definition mm_spec (k : kind) (K Rn C : Z) : list expr := mm_gen (zero_of k) (B Add k) (B Mul k) K Rn C (V k 0) (V k 1).
Definition mv_spec (k : kind) (C Rn : Z) : list expr := mv_gen (zero_of k) (B Add k) (B Mul k) C Rn (V k 0) (V k 1).
Definition vm_spec (k : kind) (C Rn : Z) : list expr := vm_gen (zero_of k) (B Add k) (B Mul k) C Rn (V k 0) (V k 1).

(* syntactic specifications (relation R1): expected output expressions *)
(* transpose of a C x R matrix is R columns x C rows: T[r][c] = M[c][r] *)
Definition transpose_spec (k : kind) (C Rn : Z) : list expr :=
  flat_map (fun r => map (fun c => V k 0 (c * Rn + r)) (zseq C)) (zseq Rn).
(* outerProduct(c, r): c has R comps (column vector), r has C comps; result C cols x R rows: M[i][j] = c[j] * r[i] *)
Definition outer_spec (k : kind) (C Rn : Z) : list expr :=
  flat_map (fun i => map (fun j => B Mul k (V k 0 j) (V k 1 i)) (zseq Rn)) (zseq C).
Definition elementwise2 (o : binop) (k : kind) (n : Z) : list expr := map (fun i => B o k (V k 0 i) (V k 1 i)) (zseq n).
Definition elementwise_ms (o : binop) (k : kind) (n : Z) : list expr := map (fun i => B o k (V k 0 i) (V k 1 0)) (zseq n).
Definition elementwise_sm (o : binop) (k : kind) (n : Z) : list expr := map (fun i => B o k (V k 0 0) (V k 1 i)) (zseq n).
Definition elementwise1 (o : unop) (k : kind) (n : Z) : list expr := map (fun i => U o k (V k 0 i)) (zseq n).
(* conversion mat<C,R>(mat<C2,R2>): overlapping block copied, rest from the identity *)
Definition convert_spec (k : kind) (C Rn C2 R2 : Z) : list expr :=
  flat_map (fun c => map (fun r => if (c <? C2) && (r <? R2) then V k 0 (c * R2 + r) else if c =? r then one_of k else zero_of k) (zseq Rn)) (zseq C).
Definition diag_spec (k : kind) (C Rn : Z) : list expr :=
  flat_map (fun c => map (fun r => if c =? r then V k 0 0 else zero_of k) (zseq Rn)) (zseq C).
Definition column_get_spec (k : kind) (C Rn i : Z) : list expr := map (fun r => V k 0 (i * Rn + r)) (zseq Rn).
Definition row_get_spec (k : kind) (C Rn i : Z) : list expr := map (fun c => V k 0 (c * Rn + i)) (zseq C).
Definition column_set_spec (k : kind) (C Rn i : Z) : list expr :=
  flat_map (fun c => map (fun r => if c =? i then V k 1 r else V k 0 (c * Rn + r)) (zseq Rn)) (zseq C).
Definition row_set_spec (k : kind) (C Rn i : Z) : list expr :=
  flat_map (fun c => map (fun r => if r =? i then V k 1 c else V k 0 (c * Rn + r)) (zseq Rn)) (zseq C).

(* ---- determinants and inverses (C10) ---- *)
Fixpoint insert_all (x : Z) (l : list Z) : list (list Z * Z) :=
  match l with
  | [] => [([x], 0)]
  | y :: r => (x :: y :: r, 0) :: map (fun '(p, j) => (y :: p, j + 1)) (insert_all x r)
  end.
(* all permutations of l, each with its number of inversions *)
Fixpoint perms (l : list Z) : list (list Z * Z) :=
  match l with
  | [] => [([], 0)]
  | x :: r => flat_map (fun '(p, s) => map (fun '(q, j) => (q, s + j)) (insert_all x p)) (perms r)
  end.
Definition prod_e (k : kind) (l : list expr) : expr := fold_left (fun acc e => B Mul k acc e) l (one_of k).
(* Leibniz expansion  sum_sigma sgn(sigma) prod_i M[i][sigma i]  of the N x N matrix given by m *)
Definition leibniz_of (k : kind) (N : Z) (m : Z -> expr) : expr :=
  fold_left (fun acc '(p, s) =>
    let term := prod_e k (map (fun '(i, j) => m (i * N + j)) (combine (zseq N) p)) in
    if Z.even s then B Add k acc term else B Sub k acc term) (perms (zseq N)) (zero_of k).
Definition leibniz (k : kind) (N : Z) : expr := leibniz_of k N (V k 0).
Definition matmul_e (k : kind) (N : Z) (a b : Z -> expr) : list expr := mm_gen (zero_of k) (B Add k) (B Mul k) N N N a b.
Definition ident_e (k : kind) (N : Z) : list expr := flat_map (fun c => map (fun r => if c =? r then one_of k else zero_of k) (zseq N)) (zseq N).
Definition scaled_ident_e (k : kind) (N : Z) (d : expr) : list expr := flat_map (fun c => map (fun r => if c =? r then d else zero_of k) (zseq N)) (zseq N).
Definition transpose_of (N : Z) (l : list expr) : list expr := flat_map (fun c => map (fun r => nth_e l (r * N + c)) (zseq N)) (zseq N).
(* substitution fixing the last row of an N x N matrix (argument 0) to (0,...,0,1): an affine transform *)
Definition affine_subst (N : Z) (k : kind) (a i : Z) : expr :=
  if (a =? 0) && (i mod N =? N - 1) then (if i / N =? N - 1 then one_of k else zero_of k) else V k a i.
