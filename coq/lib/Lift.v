(* Lift.v -- C01/C15: projection of a vector-valued decision tree on one component, and the merge of branches
   that do not influence it; soundness for the real semantics. *)
Require Import ZArith List String Bool Reals.
Import ListNotations.
From GLMV Require Import Expr SemR Cat.
Local Open Scope Z_scope.

Fixpoint proj (i : Z) (t : tree) : tree :=
  match t with
  | Leaf p o => Leaf p [nth_e o i]
  | Br c a b => Br c (proj i a) (proj i b)
  | Abort w => Abort w
  end.
(* boolean results: a branch on c returning the constants true/false IS the boolean c *)
Definition is_true (l : list expr) := match l with [Cz KB 1] => true | _ => false end.
Definition is_false (l : list expr) := match l with [Cz KB 0] => true | _ => false end.
Definition is_boolexpr (c : expr) : bool :=
  match c with Cmp _ _ _ _ | Tst _ _ _ | LNot _ | LAnd _ _ | LOr _ _ | Cz KB _ => true | _ => false end.
Definition mkbr (c : expr) (a' b' : tree) : tree :=
  if tree_eqb a' b' then a' else
  match a', b' with
  | Leaf [] oa, Leaf [] ob => if is_boolexpr c && is_true oa && is_false ob then Leaf [] [c] else if is_false oa && is_true ob then Leaf [] [LNot c] else Br c a' b'
  | _, _ => Br c a' b'
  end.
Fixpoint simp (t : tree) : tree :=
  match t with
  | Br c a b => mkbr c (simp a) (simp b)
  | _ => t
  end.

(* value of a tree whose leaves carry one output: numeric or boolean (booleans as 0/1) *)
Definition leafR (env : renv) (e : expr) : R :=
  match e with
  | Cmp _ _ _ _ | Tst _ _ _ | LNot _ | LAnd _ _ | LOr _ _ | Cz KB _ => if evalRB env e then 1%R else 0%R
  | _ => evalR env e
  end.
Fixpoint evalT1 (env : renv) (t : tree) : option R :=
  match t with
  | Leaf _ [e] => Some (leafR env e)
  | Br c a b => if evalRB env c then evalT1 env a else evalT1 env b
  | _ => None
  end.
Lemma is_true_inv l : is_true l = true -> l = [Cz KB 1].
Proof. destruct l as [|e l']; simpl; [discriminate|]. destruct e; try discriminate. destruct k; try discriminate. destruct z as [|p|p]; try discriminate. destruct p; try discriminate. destruct l'; [reflexivity|discriminate]. Qed.
Lemma is_false_inv l : is_false l = true -> l = [Cz KB 0].
Proof. destruct l as [|e l']; simpl; [discriminate|]. destruct e; try discriminate. destruct k; try discriminate. destruct z as [|p|p]; try discriminate. destruct l'; [reflexivity|discriminate]. Qed.
Lemma leafR_boolexpr env c : is_boolexpr c = true -> leafR env c = (if evalRB env c then 1%R else 0%R).
Proof. destruct c; simpl; try discriminate; try reflexivity. destruct k; try discriminate; reflexivity. Qed.
Lemma mkbr_sound env c a b : evalT1 env (mkbr c a b) = (if evalRB env c then evalT1 env a else evalT1 env b).
Proof.
  unfold mkbr. destruct (tree_eqb a b) eqn:E.
  - apply tree_eqb_eq in E. subst. destruct (evalRB env c); reflexivity.
  - destruct a as [pa oa| |]; try reflexivity. destruct pa; [|destruct b; reflexivity]. destruct b as [pb ob| |]; try reflexivity. destruct pb; try reflexivity.
    destruct (is_boolexpr c && is_true oa && is_false ob) eqn:T1.
    + apply andb_prop in T1. destruct T1 as [T1 T2]. apply andb_prop in T1. destruct T1 as [T0 T1]. apply is_true_inv in T1. apply is_false_inv in T2. subst.
      cbn [evalT1]. rewrite (leafR_boolexpr env c T0). destruct (evalRB env c); reflexivity.
    + destruct (is_false oa && is_true ob) eqn:T2; [|reflexivity].
      apply andb_prop in T2. destruct T2 as [T2 T3]. apply is_false_inv in T2. apply is_true_inv in T3. subst. simpl. destruct (evalRB env c); reflexivity.
Qed.
Lemma simp_sound env : forall t, evalT1 env (simp t) = evalT1 env t.
Proof.
  induction t as [p o | c a IHa b IHb | w]; try reflexivity.
  simpl. rewrite mkbr_sound, IHa, IHb. reflexivity.
Qed.
