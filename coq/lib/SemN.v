(* SemN.v -- semantics of traced expressions over "a real number or NaN" (None = NaN): arithmetic propagates NaN, every
   ordered comparison with a NaN is false, isnan is true exactly on NaN, the two-operand fmin / fmax (std::fmin / std::fmax)
   return the other operand when one is NaN.  Infinities and signed zeros are not distinguished from reals. *)
Require Import ZArith List Bool Reals Lra.
Import ListNotations.
From GLMV Require Import SemR Expr.
Local Open Scope R_scope.

Definition nenv := kind -> Z -> Z -> option R.
Definition lift2 (f : R -> R -> R) (a b : option R) : option R := match a, b with Some x, Some y => Some (f x y) | _, _ => None end.
Definition fminN (a b : option R) : option R := match a, b with Some x, Some y => Some (Rmin x y) | Some x, None => Some x | None, y => y end.
Definition fmaxN (a b : option R) : option R := match a, b with Some x, Some y => Some (Rmax x y) | Some x, None => Some x | None, y => y end.
Fixpoint evalN (env : nenv) (e : expr) : option R :=
  match e with
  | V k a i => env k a i
  | Cf _ s m e => Some (cstR s m e)
  | Cz _ z => Some (IZR z)
  | B FMin _ x y => fminN (evalN env x) (evalN env y)
  | B FMax _ x y => fmaxN (evalN env x) (evalN env y)
  | B o _ x y => lift2 (binR o) (evalN env x) (evalN env y)
  | U o _ x => match evalN env x with Some a => Some (unR o a) | None => None end
  | _ => None
  end.
Definition evalNB (env : nenv) (e : expr) : bool :=
  match e with
  | Cmp o _ x y => match evalN env x, evalN env y with Some a, Some b => cmpR o a b | _, _ => match o with CNe => true | _ => false end end
  | Tst IsNan _ x => match evalN env x with None => true | Some _ => false end
  | _ => false
  end.
Fixpoint evalTN (env : nenv) (t : tree) : option (list (option R)) :=
  match t with
  | Leaf _ o => Some (map (evalN env) o)
  | Br c a b => if evalNB env c then evalTN env a else evalTN env b
  | Abort _ => None
  end.

Definition a0 (env : nenv) := env F32 0%Z 0%Z.
Definition a1 (env : nenv) := env F32 1%Z 0%Z.
Definition a2 (env : nenv) := env F32 2%Z 0%Z.
Definition a3 (env : nenv) := env F32 3%Z 0%Z.
(* the specification: minimum of the operands that are numbers; NaN iff there is none *)
Definition spec_min (l : list (option R)) : option R := fold_right fminN None l.
Definition spec_max (l : list (option R)) : option R := fold_right fmaxN None l.

Ltac evN := cbn [evalTN evalNB evalN map fminN fmaxN lift2]; unfold cmpR.
Ltac nan_tac t := intros env; unfold t, spec_min, spec_max, a0, a1, a2, a3; cbn [fold_right]; evN;
  destruct (env F32 0%Z 0%Z) as [x|]; destruct (env F32 1%Z 0%Z) as [y|]; try destruct (env F32 2%Z 0%Z) as [z|]; try destruct (env F32 3%Z 0%Z) as [w|]; evN;
  unfold Rmin, Rmax;
  repeat (match goal with
          | |- context [Rle_dec ?a ?b] => lazymatch a with context [Rle_dec _ _] => fail | _ => lazymatch b with context [Rle_dec _ _] => fail | _ => destruct (Rle_dec a b) end end
          | |- context [Rlt_dec ?a ?b] => destruct (Rlt_dec a b)
          end; evN);
  try reflexivity; try (exfalso; lra);
  match goal with |- Some [Some ?a] = Some [Some ?b] => replace a with b by lra; reflexivity end.
(* the specification is NaN only if every operand is NaN *)
Theorem spec_min_nan l : spec_min l = None <-> Forall (fun a => a = None) l.
Proof.
  induction l as [|a l IH]; cbn; [split; auto|]. destruct a as [x|]; cbn.
  - split; [destruct (fold_right fminN None l); discriminate | intros H; inversion H; discriminate].
  - fold (spec_min l). rewrite IH. split; [intros H; constructor; auto | intros H; now inversion H].
Qed.
Theorem spec_max_nan l : spec_max l = None <-> Forall (fun a => a = None) l.
Proof.
  induction l as [|a l IH]; cbn; [split; auto|]. destruct a as [x|]; cbn.
  - split; [destruct (fold_right fmaxN None l); discriminate | intros H; inversion H; discriminate].
  - fold (spec_max l). rewrite IH. split; [intros H; constructor; auto | intros H; now inversion H].
Qed.
