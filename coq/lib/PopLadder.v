(* PopLadder.v -- the "parallel bit count" ladder  x := (x & M) + ((x >> s) & M)  with M = 0101.., 0011.., 00001111.., ...
   (glm/detail/func_integer.inl compute_bitfieldBitCountStep) for EVERY input, by an invariant over fields:
   after the step with shift W the value is  V (2W) n x  = sum_j pc_{2W}(field_j x) * 2^(2W j):  every 2W-bit field holds the
   number of one bits of the corresponding field of the ORIGINAL x.  V 1 n x = x mod 2^n and V w 1 x = pc w x. *)
Require Import ZArith List Bool Lia.
Local Open Scope Z_scope.
Ltac Zify.zify_post_hook ::= Z.div_mod_to_equations.

(* number of one bits among the low n bits *)
Fixpoint pc (n : nat) (x : Z) : Z := match n with O => 0 | S k => x mod 2 + pc k (x / 2) end.
Lemma pc_bound n x : 0 <= pc n x <= Z.of_nat n.
Proof. revert x. induction n as [|k IH]; intros x; cbn [pc]; [lia|]. specialize (IH (x / 2)). pose proof (Z.mod_pos_bound x 2). lia. Qed.
Lemma nat_lt_pow2 n : Z.of_nat n < 2 ^ Z.of_nat n.
Proof. induction n as [|k IH]; [cbn; lia|]. rewrite Nat2Z.inj_succ, Z.pow_succ_r by lia. lia. Qed.
Lemma pow2_pos k : 0 <= k -> 0 < 2 ^ k. Proof. intros; apply Z.pow_pos_nonneg; lia. Qed.
Lemma div_div_pow2 x a b : 0 <= a -> 0 <= b -> x / 2 ^ a / 2 ^ b = x / 2 ^ (a + b).
Proof. intros Ha Hb. rewrite Z.div_div by (try apply Z.pow_nonzero; try apply Z.lt_le_incl, pow2_pos; lia || (apply pow2_pos; lia)). now rewrite Z.pow_add_r. Qed.
Lemma mod_mod_pow2 x a b : 0 <= a <= b -> (x mod 2 ^ b) mod 2 ^ a = x mod 2 ^ a.
Proof. intros H. replace b with (a + (b - a)) by lia. rewrite Z.pow_add_r by lia. pose proof (pow2_pos a ltac:(lia)). pose proof (pow2_pos (b - a) ltac:(lia)).
  rewrite Z.rem_mul_r by lia. rewrite (Z.mul_comm (2 ^ a)), Z.mod_add by lia. apply Z.mod_mod; lia. Qed.
Lemma mod_div_pow2 x a b : 0 <= a -> 0 <= b -> (x mod 2 ^ (a + b)) / 2 ^ a = (x / 2 ^ a) mod 2 ^ b.
Proof. intros Ha Hb. rewrite Z.pow_add_r by lia. pose proof (pow2_pos a Ha). pose proof (pow2_pos b Hb).
  rewrite Z.rem_mul_r by lia. rewrite (Z.mul_comm (2 ^ a)), Z.div_add by lia. rewrite Z.div_small by (apply Z.mod_pos_bound; lia). lia. Qed.
Lemma mod2_of_mod x b : 1 <= b -> (x mod 2 ^ b) mod 2 = x mod 2. Proof. intros H. exact (mod_mod_pow2 x 1 b ltac:(lia)). Qed.
Lemma div2_of_mod x b : 0 <= b -> (x mod 2 ^ (1 + b)) / 2 = (x / 2) mod 2 ^ b. Proof. intros H. exact (mod_div_pow2 x 1 b ltac:(lia) H). Qed.
Lemma div2_div x a : 0 <= a -> x / 2 / 2 ^ a = x / 2 ^ (1 + a). Proof. intros H. exact (div_div_pow2 x 1 a ltac:(lia) H). Qed.
Lemma pc_mod n x : pc n (x mod 2 ^ Z.of_nat n) = pc n x.
Proof. revert x. induction n as [|k IH]; intros x; cbn [pc]; [reflexivity|]. rewrite Nat2Z.inj_succ.
  replace (Z.succ (Z.of_nat k)) with (1 + Z.of_nat k) by lia.
  rewrite mod2_of_mod by lia. rewrite div2_of_mod by lia. now rewrite IH. Qed.
Lemma pc_split a b x : pc (a + b) x = pc a (x mod 2 ^ Z.of_nat a) + pc b (x / 2 ^ Z.of_nat a).
Proof. revert x. induction a as [|a IH]; intros x.
  - cbn [pc Nat.add]. change (2 ^ Z.of_nat 0) with 1. now rewrite Z.div_1_r.
  - cbn [pc Nat.add]. rewrite IH. rewrite Nat2Z.inj_succ. replace (Z.succ (Z.of_nat a)) with (1 + Z.of_nat a) by lia.
    rewrite mod2_of_mod by lia. rewrite div2_of_mod by lia. rewrite div2_div by lia. lia. Qed.

(* ---- concatenation a + 2^k b of a k-bit value and the rest, bit by bit *)
Lemma cat_mod k a b : 0 <= k -> 0 <= a < 2 ^ k -> (a + 2 ^ k * b) mod 2 ^ k = a.
Proof. intros Hk Ha. rewrite (Z.mul_comm (2 ^ k)), Z.mod_add by lia. apply Z.mod_small, Ha. Qed.
Lemma cat_div k a b : 0 <= k -> 0 <= a < 2 ^ k -> (a + 2 ^ k * b) / 2 ^ k = b.
Proof. intros Hk Ha. rewrite (Z.mul_comm (2 ^ k)), Z.div_add by lia. rewrite Z.div_small by exact Ha. lia. Qed.
Lemma tb_cat k a b i : 0 <= k -> 0 <= a < 2 ^ k -> 0 <= i -> Z.testbit (a + 2 ^ k * b) i = if i <? k then Z.testbit a i else Z.testbit b (i - k).
Proof. intros Hk Ha Hi. destruct (Z.ltb_spec i k) as [H|H].
  - rewrite <- (Z.mod_pow2_bits_low _ k i) by lia. now rewrite cat_mod.
  - replace i with ((i - k) + k) at 1 by lia. rewrite <- Z.div_pow2_bits by lia. now rewrite cat_div. Qed.
Lemma land_split k a b c d : 0 <= k -> 0 <= a < 2 ^ k -> 0 <= c < 2 ^ k -> Z.land (a + 2 ^ k * b) (c + 2 ^ k * d) = Z.land a c + 2 ^ k * Z.land b d.
Proof. intros Hk Ha Hc. apply Z.bits_inj'. intros i Hi.
  assert (Hl : 0 <= Z.land a c < 2 ^ k).
  { split; [apply Z.land_nonneg; lia|]. destruct (Z.eq_dec (Z.land a c) 0) as [->|Hz]; [apply pow2_pos; lia|]. apply Z.log2_lt_pow2; [pose proof (Z.land_nonneg a c); lia|].
    apply Z.le_lt_trans with (Z.min (Z.log2 a) (Z.log2 c)); [apply Z.log2_land; lia|]. destruct (Z.eq_dec a 0) as [->|Ha0]; [rewrite Z.land_0_l in Hz; lia|].
    apply Z.le_lt_trans with (Z.log2 a); [apply Z.le_min_l|]. apply Z.log2_lt_pow2; lia. }
  rewrite Z.land_spec, !tb_cat by lia. destruct (i <? k); now rewrite Z.land_spec. Qed.

(* ---- the masks 0101.., 0011.., ...: n pairs of fields of width s, the lower field of each pair set *)
Fixpoint mask (s : Z) (n : nat) : Z := match n with O => 0 | S k => (2 ^ s - 1) + 2 ^ (2 * s) * mask s k end.
Lemma mask_nonneg s n : 0 <= s -> 0 <= mask s n.
Proof. intros Hs. induction n as [|k IH]; cbn [mask]; [lia|]. pose proof (pow2_pos s Hs). pose proof (pow2_pos (2 * s) ltac:(lia)). nia. Qed.
Definition step (s M x : Z) : Z := Z.land x M + Z.land (Z.shiftr x s) M.
Lemma step_rec s n x : 0 < s -> 0 <= x ->
  step s (mask s (S n)) x = x mod 2 ^ s + (x / 2 ^ s) mod 2 ^ s + 2 ^ (2 * s) * step s (mask s n) (x / 2 ^ (2 * s)).
Proof. intros Hs Hx. unfold step. cbn [mask]. rewrite !Z.shiftr_div_pow2 by lia.
  pose proof (pow2_pos s ltac:(lia)) as Bp. pose proof (pow2_pos (2 * s) ltac:(lia)) as B2p.
  assert (BB : 2 ^ (2 * s) = 2 ^ s * 2 ^ s) by (replace (2 * s) with (s + s) by lia; apply Z.pow_add_r; lia).
  assert (L : forall y, 0 <= y -> Z.land y (2 ^ s - 1 + 2 ^ (2 * s) * mask s n) = y mod 2 ^ s + 2 ^ (2 * s) * Z.land (y / 2 ^ (2 * s)) (mask s n)).
  { intros y Hy. rewrite (Z.div_mod y (2 ^ (2 * s))) at 1 by lia. rewrite Z.add_comm.
    rewrite land_split; [| lia | apply Z.mod_pos_bound; lia | nia ].
    f_equal. replace (2 ^ s - 1) with (Z.ones s) by (rewrite Z.ones_equiv; lia). rewrite Z.land_ones by lia. apply mod_mod_pow2. lia. }
  rewrite !L by (try apply Z.div_pos; lia). rewrite !div_div_pow2 by lia. replace (2 * s + s) with (s + 2 * s) by lia. lia. Qed.

(* ---- the invariant: n fields of width W, field j holding the bit count of field j of x *)
Fixpoint V (W n : nat) (x : Z) : Z := match n with O => 0 | S k => pc W (x mod 2 ^ Z.of_nat W) + 2 ^ Z.of_nat W * V W k (x / 2 ^ Z.of_nat W) end.
Lemma V_nonneg W n x : 0 <= V W n x.
Proof. revert x. induction n as [|k IH]; intros x; cbn [V]; [lia|]. pose proof (pc_bound W (x mod 2 ^ Z.of_nat W)). pose proof (pow2_pos (Z.of_nat W) ltac:(lia)). specialize (IH (x / 2 ^ Z.of_nat W)). nia. Qed.
Lemma V_bound W n x : 0 <= V W n x < 2 ^ (Z.of_nat W * Z.of_nat n).
Proof. revert x. induction n as [|k IH]; intros x; cbn [V].
  - rewrite Z.mul_0_r. cbn. lia.
  - pose proof (pc_bound W (x mod 2 ^ Z.of_nat W)). pose proof (nat_lt_pow2 W). pose proof (pow2_pos (Z.of_nat W) ltac:(lia)). specialize (IH (x / 2 ^ Z.of_nat W)).
    rewrite Nat2Z.inj_succ. replace (Z.of_nat W * Z.succ (Z.of_nat k)) with (Z.of_nat W + Z.of_nat W * Z.of_nat k) by lia. rewrite Z.pow_add_r by lia. nia. Qed.
Lemma V_step W n x : (0 < W)%nat -> 0 <= x -> step (Z.of_nat W) (mask (Z.of_nat W) n) (V W (2 * n) x) = V (W + W) n x.
Proof. intros HW. revert x. induction n as [|n IH]; intros x Hx.
  - cbn [V mask Nat.mul]. unfold step. now rewrite Z.land_0_r, Z.land_0_r.
  - replace (2 * S n)%nat with (S (S (2 * n))) by lia.
    set (s := Z.of_nat W). assert (Hs : 0 < s) by (unfold s; lia).
    pose proof (pow2_pos s ltac:(lia)) as Bp.
    rewrite step_rec by (try apply V_nonneg; lia).
    cbn [V]. fold s.
    set (p0 := pc W (x mod 2 ^ s)). set (p1 := pc W ((x / 2 ^ s) mod 2 ^ s)). set (Y := V W (2 * n) (x / 2 ^ s / 2 ^ s)).
    assert (H0 : 0 <= p0 < 2 ^ s) by (pose proof (pc_bound W (x mod 2 ^ s)); pose proof (nat_lt_pow2 W) as Q; fold s in Q; unfold p0; lia).
    assert (H1 : 0 <= p1 < 2 ^ s) by (pose proof (pc_bound W ((x / 2 ^ s) mod 2 ^ s)); pose proof (nat_lt_pow2 W) as Q; fold s in Q; unfold p1; lia).
    assert (HY : 0 <= Y) by apply V_nonneg.
    assert (E0 : (p0 + 2 ^ s * (p1 + 2 ^ s * Y)) mod 2 ^ s = p0) by (apply cat_mod; lia).
    assert (E1 : (p0 + 2 ^ s * (p1 + 2 ^ s * Y)) / 2 ^ s = p1 + 2 ^ s * Y) by (apply cat_div; lia).
    assert (E2 : (p0 + 2 ^ s * (p1 + 2 ^ s * Y)) / 2 ^ (2 * s) = Y).
    { replace (2 * s) with (s + s) by lia. rewrite <- div_div_pow2 by lia. rewrite E1. apply cat_div; lia. }
    rewrite E0, E1, E2. rewrite cat_mod by lia. unfold Y. rewrite div_div_pow2 by lia. replace (s + s) with (2 * s) by lia.
    rewrite IH by (apply Z.div_pos; [lia | apply pow2_pos; lia]).
    rewrite Nat2Z.inj_add. fold s. replace (s + s) with (2 * s) by lia. f_equal.
    rewrite pc_split. fold s. unfold p0, p1. f_equal.
    + f_equal. symmetry. apply mod_mod_pow2. lia.
    + f_equal. replace (2 * s) with (s + s) by lia. symmetry. apply mod_div_pow2; lia. Qed.
Lemma V_one n x : V 1 n x = x mod 2 ^ Z.of_nat n.
Proof. revert x. induction n as [|k IH]; intros x; cbn [V pc].
  - cbn. now rewrite Z.mod_1_r.
  - rewrite IH. change (2 ^ Z.of_nat 1) with 2. rewrite Z.mod_mod by lia. replace (x mod 2 / 2) with 0 by (symmetry; apply Z.div_small, Z.mod_pos_bound; lia).
    rewrite Nat2Z.inj_succ. replace (Z.succ (Z.of_nat k)) with (1 + Z.of_nat k) by lia. rewrite Z.pow_add_r by lia. change (2 ^ 1) with 2.
    rewrite Z.rem_mul_r by (try apply pow2_pos; lia). lia. Qed.
Lemma V_top W x : V W 1 x = pc W x.
Proof. cbn [V]. rewrite pc_mod. lia. Qed.

(* ---- trailing zeros: pc of  ~y & (y - 1)  (the low n bits) is the number of trailing zero bits of y, capped at n *)
Fixpoint ctz (n : nat) (y : Z) : Z := match n with O => 0 | S k => if y mod 2 =? 1 then 0 else 1 + ctz k (y / 2) end.
Lemma pc_zero n : pc n 0 = 0.
Proof. induction n as [|k IH]; cbn [pc]; [reflexivity|]. now rewrite Z.div_0_l, IH by lia. Qed.
Lemma land_split1 a0 a c0 c : 0 <= a0 < 2 -> 0 <= c0 < 2 -> Z.land (a0 + 2 * a) (c0 + 2 * c) = Z.land a0 c0 + 2 * Z.land a c.
Proof. intros Ha Hc. exact (land_split 1 a0 a c0 c ltac:(lia) Ha Hc). Qed.
Lemma pc_low_mask n y : pc n (Z.land (Z.lnot y) (y - 1)) = ctz n y.
Proof.
  revert y. induction n as [|k IH]; intros y; cbn [pc ctz]; [reflexivity|].
  pose proof (Z.div_mod y 2 ltac:(lia)) as D. pose proof (Z.mod_pos_bound y 2 ltac:(lia)) as B.
  destruct (Z.eqb_spec (y mod 2) 1) as [E|E].
  - assert (L : Z.land (Z.lnot y) (y - 1) = 0).
    { replace (Z.lnot y) with (0 + 2 * Z.lnot (y / 2)) by (unfold Z.lnot; lia). replace (y - 1) with (0 + 2 * (y / 2)) by lia.
      rewrite land_split1 by lia. rewrite (Z.land_comm (Z.lnot _)), Z.land_lnot_diag. reflexivity. }
    rewrite L. cbn. now rewrite pc_zero.
  - assert (L : Z.land (Z.lnot y) (y - 1) = 1 + 2 * Z.land (Z.lnot (y / 2)) (y / 2 - 1)).
    { replace (Z.lnot y) with (1 + 2 * Z.lnot (y / 2)) by (unfold Z.lnot; lia). replace (y - 1) with (1 + 2 * (y / 2 - 1)) by lia.
      rewrite land_split1 by lia. reflexivity. }
    rewrite L. rewrite (Z.mul_comm 2), Z.mod_add, Z.div_add by lia. cbn. now rewrite IH.
Qed.
Lemma tb0 y : Z.testbit y 0 = (y mod 2 =? 1).
Proof. pose proof (Z.bit0_mod y) as H. destruct (Z.testbit y 0); cbn in H; rewrite <- H; reflexivity. Qed.
Lemma tbS y j : 0 <= j -> Z.testbit y (j + 1) = Z.testbit (y / 2) j.
Proof. intros H. symmetry. exact (Z.div_pow2_bits y 1 j ltac:(lia) H). Qed.
Lemma ctz_spec n y : 0 <= ctz n y <= Z.of_nat n /\ (forall i, 0 <= i < ctz n y -> Z.testbit y i = false) /\ (ctz n y < Z.of_nat n -> Z.testbit y (ctz n y) = true).
Proof.
  revert y. induction n as [|k IH]; intros y; cbn [ctz].
  - split; [cbn; lia|]. split; [intros i Hi; lia | cbn; lia].
  - destruct (Z.eqb_spec (y mod 2) 1) as [E|E].
    + split; [lia|]. split; [intros i Hi; lia|]. intros _. rewrite tb0. now apply Z.eqb_eq.
    + destruct (IH (y / 2)) as (B & Lo & Hi). pose proof (Z.mod_pos_bound y 2 ltac:(lia)) as M.
      split; [lia|]. split.
      * intros i Hi'. destruct (Z.eq_dec i 0) as [->|Hn]; [rewrite tb0; now apply Z.eqb_neq|].
        replace i with ((i - 1) + 1) by lia. rewrite tbS by lia. apply Lo. lia.
      * intros Hlt. replace (1 + ctz k (y / 2)) with (ctz k (y / 2) + 1) by lia. rewrite tbS by lia. apply Hi. lia.
Qed.

(* ---- complement and runs of ones *)
Lemma pc_lnot n y : pc n (Z.lnot y) = Z.of_nat n - pc n y.
Proof.
  revert y. induction n as [|k IH]; intros y; cbn [pc]; [reflexivity|].
  replace (Z.lnot y / 2) with (Z.lnot (y / 2)) by (unfold Z.lnot; lia). rewrite IH. replace (Z.lnot y mod 2) with (1 - y mod 2) by (unfold Z.lnot; lia). lia.
Qed.
Lemma ones_succ j : 0 <= j -> Z.ones (Z.succ j) = 1 + 2 * Z.ones j.
Proof. intros Hj. rewrite !Z.ones_equiv, Z.pow_succ_r by lia. lia. Qed.
Lemma pc_ones n j : (j <= n)%nat -> pc n (Z.ones (Z.of_nat j)) = Z.of_nat j.
Proof.
  revert j. induction n as [|k IH]; intros j Hj.
  - assert (j = 0)%nat by lia. subst. reflexivity.
  - destruct j as [|j]; [cbn [Z.of_nat]; change (Z.ones 0) with 0; apply pc_zero|].
    cbn [pc]. rewrite Nat2Z.inj_succ, ones_succ by lia. rewrite (Z.mul_comm 2), Z.mod_add, Z.div_add by lia. change (1 mod 2) with 1. change (1 / 2) with 0. rewrite Z.add_0_l, IH by lia. lia.
Qed.

(* ---- y & -y is the lowest set bit: 2^(trailing zeros), 0 beyond n bits *)
Lemma land_neg_low n y : Z.land y (- y) mod 2 ^ Z.of_nat n = if ctz n y <? Z.of_nat n then 2 ^ ctz n y else 0.
Proof.
  revert y. induction n as [|k IH]; intros y; cbn [ctz].
  - change (2 ^ Z.of_nat 0) with 1. rewrite Z.mod_1_r. reflexivity.
  - pose proof (Z.div_mod y 2 ltac:(lia)) as D. pose proof (Z.mod_pos_bound y 2 ltac:(lia)) as B.
    rewrite Nat2Z.inj_succ. replace (Z.succ (Z.of_nat k)) with (1 + Z.of_nat k) by lia.
    destruct (Z.eqb_spec (y mod 2) 1) as [E|E].
    + assert (L : Z.land y (- y) = 1 + 2 * 0).
      { replace y with (1 + 2 * (y / 2)) at 1 by lia. replace (- y) with (1 + 2 * Z.lnot (y / 2)) by (unfold Z.lnot; lia).
        rewrite land_split1 by lia. rewrite Z.land_lnot_diag. reflexivity. }
      rewrite L. replace (0 <? 1 + Z.of_nat k) with true by (symmetry; apply Z.ltb_lt; lia). change (1 + 2 * 0) with 1. change (2 ^ 0) with 1. apply Z.mod_small. split; [lia|].
      rewrite Z.pow_add_r by lia. pose proof (pow2_pos (Z.of_nat k) ltac:(lia)). change (2 ^ 1) with 2. lia.
    + assert (L : Z.land y (- y) = 0 + 2 * Z.land (y / 2) (- (y / 2))).
      { replace y with (0 + 2 * (y / 2)) at 1 by lia. replace (- y) with (0 + 2 * (- (y / 2))) by lia. rewrite land_split1 by lia. reflexivity. }
      rewrite L. rewrite Z.add_0_l. rewrite Z.pow_add_r by lia. change (2 ^ 1) with 2. pose proof (pow2_pos (Z.of_nat k) ltac:(lia)).
      rewrite Z.mul_mod_distr_l by lia. rewrite IH. pose proof (ctz_spec k (y / 2)) as (Cb & _ & _).
      destruct (Z.ltb_spec (ctz k (y / 2)) (Z.of_nat k)); destruct (Z.ltb_spec (1 + ctz k (y / 2)) (1 + Z.of_nat k)); try lia.
      rewrite Z.pow_add_r by lia. reflexivity.
Qed.

(* ---- clearing one set bit *)
Lemma tb_ge_pow2 y t : 0 <= y -> 0 <= t -> Z.testbit y t = true -> 2 ^ t <= y.
Proof. intros Hy Ht Tb. destruct (Z_lt_le_dec y (2 ^ t)) as [Hlt|Hle]; [|exact Hle]. exfalso. apply Z.testbit_true in Tb; [|lia]. rewrite Z.div_small in Tb by lia. cbn in Tb. discriminate. Qed.
Lemma clear_bit y t : 0 <= t -> Z.testbit y t = true -> Z.land y (Z.lnot (2 ^ t)) = y - 2 ^ t.
Proof.
  intros Ht Tb. rewrite <- Z.ldiff_land. symmetry. apply Z.sub_nocarry_ldiff. apply Z.bits_inj'. intros i Hi. rewrite Z.ldiff_spec, Z.bits_0.
  destruct (Z.eq_dec i t) as [->|Hn]; [rewrite Tb; apply andb_false_r | rewrite Z.pow2_bits_false by lia; reflexivity].
Qed.
Lemma pc_clear n y t : 0 <= t < Z.of_nat n -> Z.testbit y t = true -> pc n (y - 2 ^ t) = pc n y - 1.
Proof.
  revert y t. induction n as [|k IH]; intros y t Ht Tb; [lia|]. cbn [pc].
  pose proof (Z.div_mod y 2 ltac:(lia)) as D. pose proof (Z.mod_pos_bound y 2 ltac:(lia)) as B.
  destruct (Z.eq_dec t 0) as [->|Hn].
  - rewrite tb0 in Tb. apply Z.eqb_eq in Tb. change (2 ^ 0) with 1. replace (y - 1) with (0 + (y / 2) * 2) by lia. rewrite Z.mod_add, Z.div_add by lia. cbn. lia.
  - assert (P2 : 2 ^ t = 2 ^ (t - 1) * 2) by (replace t with (Z.succ (t - 1)) at 1 by lia; rewrite Z.pow_succ_r by lia; ring). rewrite P2.
    replace (y - 2 ^ (t - 1) * 2) with (y mod 2 + (y / 2 - 2 ^ (t - 1)) * 2) by lia. rewrite Z.mod_add, Z.div_add by lia.
    rewrite Z.mod_mod by lia. rewrite Z.div_small with (a := y mod 2) by lia. rewrite Z.add_0_l. rewrite IH; [lia | rewrite Nat2Z.inj_succ in Ht; lia |].
    replace t with ((t - 1) + 1) in Tb by lia. rewrite tbS in Tb by lia. exact Tb.
Qed.
Lemma pc_pos n y : 0 < y < 2 ^ Z.of_nat n -> 1 <= pc n y.
Proof.
  revert y. induction n as [|k IH]; intros y Hy; [cbn in Hy; lia|]. cbn [pc]. pose proof (Z.div_mod y 2 ltac:(lia)) as D. pose proof (Z.mod_pos_bound y 2 ltac:(lia)) as B.
  rewrite Nat2Z.inj_succ, Z.pow_succ_r in Hy by lia. destruct (Z.eq_dec (y mod 2) 1) as [E|E]; [pose proof (pc_bound k (y / 2)); lia|].
  assert (1 <= pc k (y / 2)) by (apply IH; lia). lia.
Qed.
(* the lowest set bit as a value, for 0 < y < 2^n *)
Lemma lowbit_value n y : 0 < y < 2 ^ Z.of_nat n -> Z.land y (- y) = 2 ^ ctz n y /\ 0 <= ctz n y < Z.of_nat n /\ Z.testbit y (ctz n y) = true.
Proof.
  intros Hy. pose proof (land_neg_low n y) as L. destruct (ctz_spec n y) as (B & Lo & Hi).
  assert (Hlt : ctz n y < Z.of_nat n).
  { destruct (Z.eq_dec (ctz n y) (Z.of_nat n)) as [E|E]; [|lia]. exfalso. assert (y = 0); [|lia]. apply Z.bits_inj'. intros i Hi'. rewrite Z.bits_0.
    destruct (Z.ltb_spec i (Z.of_nat n)); [apply Lo; lia|]. destruct (Z.eq_dec y 0) as [->|]; [apply Z.bits_0|]. apply Z.bits_above_log2; [lia|]. apply Z.lt_le_trans with (Z.of_nat n); [apply Z.log2_lt_pow2; lia | lia]. }
  replace (ctz n y <? Z.of_nat n) with true in L by (symmetry; apply Z.ltb_lt; exact Hlt).
  split; [|split; [lia | apply Hi, Hlt]]. rewrite <- L. symmetry. apply Z.mod_small. split; [apply Z.land_nonneg; lia|].
  set (z := Z.land y (- y)). assert (Hz0 : 0 <= z) by (apply Z.land_nonneg; lia).
  destruct (Z_lt_le_dec z (2 ^ Z.of_nat n)) as [Hl|Hg]; [exact Hl|]. exfalso.
  assert (Zp : 0 < z) by (pose proof (pow2_pos (Z.of_nat n) ltac:(lia)); lia).
  assert (Tz : Z.testbit z (Z.log2 z) = true) by (apply Z.bit_log2; exact Zp).
  assert (Lz : Z.of_nat n <= Z.log2 z) by (apply Z.log2_le_pow2; [exact Zp | exact Hg]).
  unfold z in Tz. rewrite Z.land_spec in Tz. apply andb_true_iff in Tz as [Ty _].
  assert (Fy : Z.testbit y (Z.log2 (Z.land y (- y))) = false) by (apply Z.bits_above_log2; [lia|]; apply Z.lt_le_trans with (Z.of_nat n); [apply Z.log2_lt_pow2; lia | exact Lz]).
  rewrite Fy in Ty. discriminate.
Qed.
