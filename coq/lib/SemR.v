(* SemR.v -- real-number idealisation of traced expressions (relation R3 of DESIGN.md section 3).
   Floating kinds are interpreted in R with exact operations; `realok` delimits the fragment on
   which this idealisation is meaningful (floating kinds, modelled operators). *)
Require Import ZArith List Bool Reals Lra.
From Flocq Require Import Core.Raux Core.Generic_fmt Core.Zaux.
From GLMV Require Import Expr.
Import ListNotations.
Local Open Scope R_scope.

Definition renv := kind -> Z -> Z -> R.

Definition cstR (s : bool) (m e : Z) : R :=
  let v := if (0 <=? e)%Z then IZR (m * 2 ^ e) else IZR m / IZR (2 ^ (- e)) in
  if s then - v else v.

Definition Ratan2 (y x : R) : R :=
  if Rlt_dec 0 x then atan (y / x)
  else if Rlt_dec x 0 then (if Rle_dec 0 y then atan (y / x) + PI else atan (y / x) - PI)
  else if Rlt_dec 0 y then PI / 2 else if Rlt_dec y 0 then - PI / 2 else 0.

Definition unR (o : unop) (x : R) : R :=
  match o with
  | Neg => - x | Sqrt => sqrt x | Floor => IZR (Zfloor x) | Ceil => IZR (Zceil x) | Trunc => IZR (Ztrunc x)
  | Round => IZR (ZnearestA x) | Nearby => IZR (Znearest (fun n => negb (Z.even n)) x)
  | FAbs => Rabs x | Sin => sin x | Cos => cos x | Tan => tan x | Asin => asin x | Acos => acos x | Atan => atan x
  | Sinh => sinh x | Cosh => cosh x | Tanh => tanh x | Asinh => arcsinh x
  | Acosh => ln (x + sqrt (x * x - 1)) | Atanh => ln ((1 + x) / (1 - x)) / 2
  | Exp => exp x | Log => ln x | Exp2 => Rpower 2 x | Log2 => ln x / ln 2
  | Rcp => / x | Rsqrt => / sqrt x
  | BNot => 0
  end.

Definition binR (o : binop) (x y : R) : R :=
  match o with
  | Add => x + y | Sub => x - y | Mul => x * y | Div => x / y
  | Pow => Rpower x y | Atan2 => Ratan2 x y | Fmod => x - y * IZR (Ztrunc (x / y))
  | FMin => Rmin x y | FMax => Rmax x y
  | Ldexp => x * Rpower 2 y
  | CopySign => if Rlt_dec y 0 then - Rabs x else Rabs x   (* the magnitude of x with the sign of y; y = -0 is not distinguished from +0 *)
  | _ => 0
  end.

Definition cmpR (o : cmpop) (x y : R) : bool :=
  match o with
  | CLt => if Rlt_dec x y then true else false
  | CLe => if Rle_dec x y then true else false
  | CGt => if Rlt_dec y x then true else false
  | CGe => if Rle_dec y x then true else false
  | CEq => if Req_EM_T x y then true else false
  | CNe => if Req_EM_T x y then false else true
  end.

Fixpoint evalR (env : renv) (e : expr) {struct e} : R :=
  match e with
  | V k a i => env k a i
  | Cz _ z => IZR z
  | Cf _ s m e => cstR s m e
  | Cinf _ _ | Cnan _ => 0
  | U o _ x => unR o (evalR env x)
  | B o _ x y => binR o (evalR env x) (evalR env y)
  | Fma _ x y z => evalR env x * evalR env y + evalR env z
  | Cv d s x => if kind_eqb s KB then (if evalRB env x then 1 else 0)
                else if is_float s && is_int d then IZR (Ztrunc (evalR env x)) else evalR env x
  | Cmp _ _ _ _ | Tst _ _ _ | LNot _ | LAnd _ _ | LOr _ _ => 0
  end
with evalRB (env : renv) (e : expr) {struct e} : bool :=
  match e with
  | Cmp o _ x y => cmpR o (evalR env x) (evalR env y)
  | LNot x => negb (evalRB env x)
  | LAnd x y => evalRB env x && evalRB env y
  | LOr x y => evalRB env x || evalRB env y
  | Cz KB z => negb (Z.eqb z 0)
  | _ => false
  end.

(* the fragment on which evalR is the intended idealisation *)
Definition unop_real (o : unop) := match o with BNot | Nearby => false | _ => true end.
Definition binop_real (o : binop) :=
  match o with Add | Sub | Mul | Div | Pow | Atan2 | Fmod | FMin | FMax | CopySign => true | _ => false end.

Fixpoint realok (e : expr) : bool :=
  match e with
  | V k _ _ => is_float k
  | Cz k _ => true
  | Cf k _ _ _ => is_float k
  | Cinf _ _ | Cnan _ => false
  | U o k x => is_float k && unop_real o && realok x
  | B o k x y => is_float k && binop_real o && realok x && realok y
  | Fma k x y z => is_float k && realok x && realok y && realok z
  | Cmp _ k x y => is_float k && realok x && realok y
  | Tst _ _ _ => false
  | LNot x => realok x
  | LAnd x y | LOr x y => realok x && realok y
  | Cv d s x => (is_float d && (is_float s || kind_eqb s KB)) && realok x
  end.

Fixpoint realok_tree (t : tree) : bool :=
  match t with
  | Leaf p o => forallb realok p && forallb realok o
  | Br c t f => realok c && realok_tree t && realok_tree f
  | Abort _ => false
  end.

(* evaluation of a decision tree: the outputs of the leaf selected by the conditions,
   together with the truth of that leaf's preconditions *)
Fixpoint evalT (env : renv) (t : tree) : option (bool * list R) :=
  match t with
  | Leaf p o => Some (forallb (evalRB env) p, map (evalR env) o)
  | Br c t f => if evalRB env c then evalT env t else evalT env f
  | Abort _ => None
  end.

Lemma cstR_int s m : cstR s m 0 = if s then - IZR m else IZR m.
Proof. unfold cstR. simpl. rewrite Z.mul_1_r. reflexivity. Qed.
