(* SemZ.v -- machine-integer semantics of traced expressions: two's complement at the width of the
   node's kind.  `strict = true` is the *checked* semantics of DESIGN.md (None = an operation C++
   leaves undefined: signed overflow, bad shift count, division by zero, INT_MIN / -1);
   `strict = false` wraps signed arithmetic (what the hardware does). *)
Require Import ZArith List Bool Lia.
From GLMV Require Import Expr.
Import ListNotations.
Local Open Scope Z_scope.

Definition zenv := kind -> Z -> Z -> Z.

Definition wrap (k : kind) (z : Z) : Z :=
  let w := width k in
  let m := z mod 2 ^ w in
  if is_signed k then (if m <? 2 ^ (w - 1) then m else m - 2 ^ w) else m.

Definition in_range (k : kind) (z : Z) : bool :=
  if is_signed k then (- 2 ^ (width k - 1) <=? z) && (z <? 2 ^ (width k - 1))
  else (0 <=? z) && (z <? 2 ^ width k).

(* result of an arithmetic operation whose mathematical value is r *)
Definition arith (strict : bool) (k : kind) (r : Z) : option Z :=
  if strict && is_signed k && negb (in_range k r) then None else Some (wrap k r).

Definition unZ (strict : bool) (o : unop) (k : kind) (a : Z) : option Z :=
  match o with
  | Neg => arith strict k (- a)
  | BNot => Some (wrap k (Z.lnot a))
  | FAbs => arith strict k (Z.abs a)
  | _ => None
  end.

Definition binZ (strict : bool) (o : binop) (k : kind) (a b : Z) : option Z :=
  match o with
  | Add => arith strict k (a + b)
  | Sub => arith strict k (a - b)
  | Mul => arith strict k (a * b)
  | Div => if b =? 0 then None else if is_signed k && (a =? - 2 ^ (width k - 1)) && (b =? -1) then None else Some (wrap k (Z.quot a b))
  | Rem => if b =? 0 then None else if is_signed k && (a =? - 2 ^ (width k - 1)) && (b =? -1) then None else Some (wrap k (Z.rem a b))
  | BAnd => Some (wrap k (Z.land a b))
  | BOr => Some (wrap k (Z.lor a b))
  | BXor => Some (wrap k (Z.lxor a b))
  | Shl => if (b <? 0) || (width k <=? b) then None
           else if strict && is_signed k && ((a <? 0) || (2 ^ width k <=? a * 2 ^ b)) then None    (* C++14: a >= 0 and a * 2^b representable in the unsigned type *)
           else Some (wrap k (a * 2 ^ b))
  | Shr => if (b <? 0) || (width k <=? b) then None else Some (wrap k (a / 2 ^ b))
  | _ => None
  end.

Definition cmpZ (o : cmpop) (a b : Z) : bool :=
  match o with
  | CLt => a <? b | CLe => a <=? b | CGt => b <? a | CGe => b <=? a | CEq => a =? b | CNe => negb (a =? b)
  end.

Definition obind {A B} (x : option A) (f : A -> option B) : option B := match x with Some a => f a | None => None end.

Fixpoint evalZ (strict : bool) (env : zenv) (e : expr) {struct e} : option Z :=
  match e with
  | V k a i => if is_int k then Some (wrap k (env k a i)) else None
  | Cz k z => Some z
  | U o k x => if is_int k then obind (evalZ strict env x) (unZ strict o k) else None
  | B o k x y => if is_int k then obind (evalZ strict env x) (fun a => obind (evalZ strict env y) (binZ strict o k a)) else None
  | Cv d s x => if is_int d then
                  (if kind_eqb s KB then obind (evalZB strict env x) (fun b => Some (if b then 1 else 0))
                   else if is_int s then obind (evalZ strict env x) (fun a => Some (wrap d a)) else None)
                else None
  | _ => None
  end
with evalZB (strict : bool) (env : zenv) (e : expr) {struct e} : option bool :=
  match e with
  | Cmp o k x y => if is_int k then obind (evalZ strict env x) (fun a => obind (evalZ strict env y) (fun b => Some (cmpZ o a b))) else None
  | LNot x => obind (evalZB strict env x) (fun b => Some (negb b))
  | LAnd x y => obind (evalZB strict env x) (fun a => obind (evalZB strict env y) (fun b => Some (a && b)))
  | LOr x y => obind (evalZB strict env x) (fun a => obind (evalZB strict env y) (fun b => Some (a || b)))
  | Cz KB z => Some (negb (z =? 0))
  | Cv KB s x => if is_int s then obind (evalZ strict env x) (fun a => Some (negb (a =? 0))) else None
  | _ => None
  end.

Fixpoint omap {A B} (f : A -> option B) (l : list A) : option (list B) :=
  match l with
  | [] => Some []
  | x :: l' => obind (f x) (fun y => obind (omap f l') (fun ys => Some (y :: ys)))
  end.

Fixpoint evalTZ (strict : bool) (env : zenv) (t : tree) : option (bool * list Z) :=
  match t with
  | Leaf p o => obind (omap (evalZB strict env) p) (fun ps => obind (omap (evalZ strict env) o) (fun os => Some (forallb (fun b => b) ps, os)))
  | Br c t f => obind (evalZB strict env c) (fun b => if b then evalTZ strict env t else evalTZ strict env f)
  | Abort _ => None
  end.

(* ---- the ring fragment: wrap-around evaluation is the wrap of exact integer evaluation ---- *)
Fixpoint ringfrag (k : kind) (e : expr) : bool :=
  match e with
  | V k' _ _ => kind_eqb k k'
  | Cz k' z => kind_eqb k k' && in_range k z
  | U Neg k' x => kind_eqb k k' && ringfrag k x
  | B Add k' x y | B Sub k' x y | B Mul k' x y => kind_eqb k k' && ringfrag k x && ringfrag k y
  | _ => false
  end.

Fixpoint evalZi (env : zenv) (e : expr) : Z :=
  match e with
  | V k a i => env k a i
  | Cz _ z => z
  | U Neg _ x => - evalZi env x
  | B Add _ x y => evalZi env x + evalZi env y
  | B Sub _ x y => evalZi env x - evalZi env y
  | B Mul _ x y => evalZi env x * evalZi env y
  | _ => 0
  end.

Lemma pow2_pos w : 0 <= w -> 0 < 2 ^ w. Proof. intros. apply Z.pow_pos_nonneg; lia. Qed.

Lemma width_pos k : 0 < width k. Proof. destruct k; simpl; lia. Qed.

Lemma wrap_mod k z : (wrap k z) mod 2 ^ width k = z mod 2 ^ width k.
Proof.
  unfold wrap. pose proof (width_pos k) as Hw. pose proof (pow2_pos (width k) ltac:(lia)) as Hp.
  destruct (is_signed k).
  - destruct (z mod 2 ^ width k <? 2 ^ (width k - 1)).
    + apply Z.mod_mod; lia.
    + replace (z mod 2 ^ width k - 2 ^ width k) with (z mod 2 ^ width k + (-1) * 2 ^ width k) by ring.
      rewrite Z.mod_add by lia. apply Z.mod_mod; lia.
  - apply Z.mod_mod; lia.
Qed.

Lemma wrap_congr k a b : a mod 2 ^ width k = b mod 2 ^ width k -> wrap k a = wrap k b.
Proof. unfold wrap. intros ->. reflexivity. Qed.

Lemma wrap_wrap k z : wrap k (wrap k z) = wrap k z.
Proof. apply wrap_congr. apply wrap_mod. Qed.

Lemma wrap_in_range k z : in_range k z = true -> wrap k z = z.
Proof.
  unfold in_range, wrap. pose proof (width_pos k) as Hw.
  assert (H2 : 2 ^ width k = 2 * 2 ^ (width k - 1)).
  { replace (width k) with (1 + (width k - 1)) at 1 by lia. rewrite Z.pow_add_r by lia. reflexivity. }
  pose proof (pow2_pos (width k - 1) ltac:(lia)) as Hp.
  destruct (is_signed k); intros H; apply andb_prop in H; destruct H as [Ha Hb];
    apply Z.leb_le in Ha; apply Z.ltb_lt in Hb.
  - destruct (Z_lt_le_dec z 0).
    + assert (Hm : z mod 2 ^ width k = z + 2 ^ width k).
      { symmetry. apply Z.mod_unique with (q := -1); lia. }
      rewrite Hm. destruct (z + 2 ^ width k <? 2 ^ (width k - 1)) eqn:E.
      * apply Z.ltb_lt in E. lia.
      * lia.
    + rewrite Z.mod_small by lia. destruct (z <? 2 ^ (width k - 1)) eqn:E; [reflexivity|]. apply Z.ltb_ge in E. lia.
  - apply Z.mod_small; lia.
Qed.

Lemma wrap_add k a b : wrap k (wrap k a + wrap k b) = wrap k (a + b).
Proof. apply wrap_congr. pose proof (width_pos k). rewrite Z.add_mod by (apply Z.pow_nonzero; lia). rewrite !wrap_mod. rewrite <- Z.add_mod by (apply Z.pow_nonzero; lia). reflexivity. Qed.
Lemma wrap_sub k a b : wrap k (wrap k a - wrap k b) = wrap k (a - b).
Proof. apply wrap_congr. pose proof (width_pos k). rewrite Zminus_mod. rewrite !wrap_mod. rewrite <- Zminus_mod. reflexivity. Qed.
Lemma wrap_mul k a b : wrap k (wrap k a * wrap k b) = wrap k (a * b).
Proof. apply wrap_congr. pose proof (width_pos k). rewrite Z.mul_mod by (apply Z.pow_nonzero; lia). rewrite !wrap_mod. rewrite <- Z.mul_mod by (apply Z.pow_nonzero; lia). reflexivity. Qed.
Lemma wrap_neg k a : wrap k (- wrap k a) = wrap k (- a).
Proof. replace (- wrap k a) with (wrap k 0 - wrap k a). 2:{ unfold wrap at 1. rewrite Z.mod_0_l by (apply Z.pow_nonzero; pose proof (width_pos k); lia).
  destruct (is_signed k); [|lia]. pose proof (width_pos k). pose proof (pow2_pos (width k - 1) ltac:(lia)). destruct (0 <? 2 ^ (width k - 1)) eqn:E; [lia|]. apply Z.ltb_ge in E; lia. }
  rewrite wrap_sub. reflexivity. Qed.

Theorem evalZ_ring : forall k env e, is_int k = true -> ringfrag k e = true ->
  evalZ false env e = Some (wrap k (evalZi env e)).
Proof.
  intros k env e Hk. induction e; simpl; intros H; try discriminate.
  - apply kind_eqb_eq in H; subst k0. rewrite Hk. reflexivity.
  - apply andb_prop in H; destruct H as [H1 H2]. apply kind_eqb_eq in H1; subst k0. rewrite wrap_in_range by assumption. reflexivity.
  - destruct o; try discriminate. apply andb_prop in H; destruct H as [H1 H2]. apply kind_eqb_eq in H1; subst k0.
    rewrite Hk. rewrite IHe by assumption. simpl. unfold arith. simpl. rewrite wrap_neg. reflexivity.
  - destruct o; try discriminate; apply andb_prop in H; destruct H as [H H3]; apply andb_prop in H; destruct H as [H1 H2];
    apply kind_eqb_eq in H1; subst k0; rewrite Hk, IHe1, IHe2 by assumption; simpl; unfold arith; simpl.
    + rewrite wrap_add; reflexivity.
    + rewrite wrap_sub; reflexivity.
    + rewrite wrap_mul; reflexivity.
Qed.
