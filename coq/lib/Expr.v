(* Expr.v -- deep embedding of the expressions GLM computes, as produced by translator T1
   (/verif/tools/trace).  Syntax, decidable equality, substitution, traversal helpers. *)
Require Import ZArith List String Bool.
Import ListNotations.
Local Open Scope Z_scope.

Inductive kind := F32 | F64 | I32 | U32 | I64 | U64 | KB | I16 | U16 | I8 | U8.

Inductive unop := Neg | BNot | Sqrt | Floor | Ceil | Trunc | Round | FAbs | Sin | Cos | Tan | Asin | Acos | Atan
  | Sinh | Cosh | Tanh | Asinh | Acosh | Atanh | Exp | Log | Exp2 | Log2 | Rcp | Rsqrt | Nearby.

Inductive binop := Add | Sub | Mul | Div | Rem | BAnd | BOr | BXor | Shl | Shr | Pow | Atan2 | Fmod | FMin | FMax
  | NextAfter | CopySign | Ldexp.

Inductive cmpop := CLt | CLe | CGt | CGe | CEq | CNe.
Inductive tstop := IsNan | IsInf.

Inductive expr :=
| V (k : kind) (a i : Z)                      (* input: argument a, flat component i *)
| Cz (k : kind) (z : Z)                       (* integer (or boolean 0/1) constant *)
| Cf (k : kind) (s : bool) (m e : Z)          (* floating constant (-1)^s * m * 2^e, exact *)
| Cinf (k : kind) (s : bool)
| Cnan (k : kind)
| U (o : unop) (k : kind) (x : expr)
| B (o : binop) (k : kind) (x y : expr)
| Fma (k : kind) (x y z : expr)
| Cmp (o : cmpop) (k : kind) (x y : expr)     (* k = kind of the operands; result is boolean *)
| Tst (o : tstop) (k : kind) (x : expr)
| LNot (x : expr) | LAnd (x y : expr) | LOr (x y : expr)
| Cv (dst src : kind) (x : expr).             (* static_cast<dst>(x), x of kind src *)

(* The behaviour of one entry point: a decision tree over the data-dependent branches the source
   takes; each leaf lists the recorded assert() preconditions and the output components. *)
Inductive tree :=
| Leaf (pre outs : list expr)
| Br (c : expr) (t f : tree)
| Abort (why : string).

Definition kind_eqb (a b : kind) : bool :=
  match a, b with
  | F32, F32 | F64, F64 | I32, I32 | U32, U32 | I64, I64 | U64, U64 | KB, KB | I16, I16 | U16, U16 | I8, I8 | U8, U8 => true
  | _, _ => false
  end.
Lemma kind_eqb_eq a b : kind_eqb a b = true -> a = b.
Proof. destruct a, b; simpl; intros H; try reflexivity; discriminate. Qed.
Lemma kind_eqb_refl a : kind_eqb a a = true. Proof. destruct a; reflexivity. Qed.

Scheme Equality for unop.
Scheme Equality for binop.
Scheme Equality for cmpop.
Scheme Equality for tstop.

Definition is_float (k : kind) := match k with F32 | F64 => true | _ => false end.
Definition is_int (k : kind) := match k with I32 | U32 | I64 | U64 | I16 | U16 | I8 | U8 => true | _ => false end.
Definition is_signed (k : kind) := match k with I32 | I64 | I16 | I8 => true | _ => false end.
Definition width (k : kind) : Z :=
  match k with F32 | I32 | U32 => 32 | F64 | I64 | U64 => 64 | I16 | U16 => 16 | I8 | U8 => 8 | KB => 1 end.

Fixpoint expr_eqb (a b : expr) {struct a} : bool :=
  match a, b with
  | V k a1 i1, V k' a2 i2 => kind_eqb k k' && Z.eqb a1 a2 && Z.eqb i1 i2
  | Cz k z, Cz k' z' => kind_eqb k k' && Z.eqb z z'
  | Cf k s m e, Cf k' s' m' e' => kind_eqb k k' && Bool.eqb s s' && Z.eqb m m' && Z.eqb e e'
  | Cinf k s, Cinf k' s' => kind_eqb k k' && Bool.eqb s s'
  | Cnan k, Cnan k' => kind_eqb k k'
  | U o k x, U o' k' x' => unop_beq o o' && kind_eqb k k' && expr_eqb x x'
  | B o k x y, B o' k' x' y' => binop_beq o o' && kind_eqb k k' && expr_eqb x x' && expr_eqb y y'
  | Fma k x y z, Fma k' x' y' z' => kind_eqb k k' && expr_eqb x x' && expr_eqb y y' && expr_eqb z z'
  | Cmp o k x y, Cmp o' k' x' y' => cmpop_beq o o' && kind_eqb k k' && expr_eqb x x' && expr_eqb y y'
  | Tst o k x, Tst o' k' x' => tstop_beq o o' && kind_eqb k k' && expr_eqb x x'
  | LNot x, LNot x' => expr_eqb x x'
  | LAnd x y, LAnd x' y' => expr_eqb x x' && expr_eqb y y'
  | LOr x y, LOr x' y' => expr_eqb x x' && expr_eqb y y'
  | Cv d s x, Cv d' s' x' => kind_eqb d d' && kind_eqb s s' && expr_eqb x x'
  | _, _ => false
  end.

Ltac split_andb :=
  repeat match goal with
  | H : (_ && _)%bool = true |- _ => apply andb_prop in H; destruct H
  end.

Lemma expr_eqb_eq : forall a b, expr_eqb a b = true -> a = b.
Proof.
  induction a; destruct b; simpl; intros H; try discriminate; split_andb;
  repeat match goal with
  | H : kind_eqb _ _ = true |- _ => apply kind_eqb_eq in H; subst
  | H : Z.eqb _ _ = true |- _ => apply Z.eqb_eq in H; subst
  | H : Bool.eqb _ _ = true |- _ => apply Bool.eqb_prop in H; subst
  | H : unop_beq _ _ = true |- _ => apply internal_unop_dec_bl in H; subst
  | H : binop_beq _ _ = true |- _ => apply internal_binop_dec_bl in H; subst
  | H : cmpop_beq _ _ = true |- _ => apply internal_cmpop_dec_bl in H; subst
  | H : tstop_beq _ _ = true |- _ => apply internal_tstop_dec_bl in H; subst
  | IH : forall b, expr_eqb ?x b = true -> ?x = b, H : expr_eqb ?x _ = true |- _ => apply IH in H; subst
  end; reflexivity.
Qed.

Lemma expr_eqb_refl : forall a, expr_eqb a a = true.
Proof.
  induction a; simpl; rewrite ?kind_eqb_refl, ?Z.eqb_refl, ?Bool.eqb_reflx; simpl;
  repeat match goal with H : expr_eqb _ _ = true |- _ => rewrite H; clear H end; simpl;
  try reflexivity.
  - destruct o; reflexivity.
  - destruct o; reflexivity.
  - destruct o; reflexivity.
  - destruct o; reflexivity.
Qed.

Fixpoint list_eqb (l1 l2 : list expr) : bool :=
  match l1, l2 with
  | [], [] => true
  | x :: l1', y :: l2' => expr_eqb x y && list_eqb l1' l2'
  | _, _ => false
  end.
Lemma list_eqb_eq : forall l1 l2, list_eqb l1 l2 = true -> l1 = l2.
Proof.
  induction l1; destruct l2; simpl; intros H; try discriminate; auto.
  apply andb_prop in H; destruct H as [H1 H2]. apply expr_eqb_eq in H1. apply IHl1 in H2. subst; reflexivity.
Qed.

Fixpoint tree_eqb (a b : tree) : bool :=
  match a, b with
  | Leaf p o, Leaf p' o' => list_eqb p p' && list_eqb o o'
  | Br c t f, Br c' t' f' => expr_eqb c c' && tree_eqb t t' && tree_eqb f f'
  | Abort w, Abort w' => String.eqb w w' && String.prefix "large:" w   (* entries summarised by a structural hash *)
  | _, _ => false
  end.
Lemma tree_eqb_eq : forall a b, tree_eqb a b = true -> a = b.
Proof.
  induction a; destruct b; simpl; intros H; try discriminate; split_andb.
  - apply list_eqb_eq in H. apply list_eqb_eq in H0. subst; reflexivity.
  - apply expr_eqb_eq in H. apply IHa1 in H1. apply IHa2 in H0. subst; reflexivity.
  - apply String.eqb_eq in H. subst; reflexivity.
Qed.

(* substitution of inputs *)
Fixpoint subst (s : kind -> Z -> Z -> expr) (e : expr) : expr :=
  match e with
  | V k a i => s k a i
  | Cz _ _ | Cf _ _ _ _ | Cinf _ _ | Cnan _ => e
  | U o k x => U o k (subst s x)
  | B o k x y => B o k (subst s x) (subst s y)
  | Fma k x y z => Fma k (subst s x) (subst s y) (subst s z)
  | Cmp o k x y => Cmp o k (subst s x) (subst s y)
  | Tst o k x => Tst o k (subst s x)
  | LNot x => LNot (subst s x)
  | LAnd x y => LAnd (subst s x) (subst s y)
  | LOr x y => LOr (subst s x) (subst s y)
  | Cv d k x => Cv d k (subst s x)
  end.

Fixpoint subst_tree (s : kind -> Z -> Z -> expr) (t : tree) : tree :=
  match t with
  | Leaf p o => Leaf (map (subst s) p) (map (subst s) o)
  | Br c t f => Br (subst s c) (subst_tree s t) (subst_tree s f)
  | Abort w => Abort w
  end.

(* size, for non-vacuity statements *)
Fixpoint esize (e : expr) : Z :=
  match e with
  | V _ _ _ | Cz _ _ | Cf _ _ _ _ | Cinf _ _ | Cnan _ => 1
  | U _ _ x | Tst _ _ x | LNot x | Cv _ _ x => 1 + esize x
  | B _ _ x y | Cmp _ _ x y | LAnd x y | LOr x y => 1 + esize x + esize y
  | Fma _ x y z => 1 + esize x + esize y + esize z
  end.

Fixpoint leaves (t : tree) : list (list expr * list expr) :=
  match t with
  | Leaf p o => [(p, o)]
  | Br _ t f => leaves t ++ leaves f
  | Abort _ => []
  end.
(* an Abort that is not a "large:<hash>" summary: the entry could not be traced *)
Fixpoint has_abort (t : tree) : bool :=
  match t with Leaf _ _ => false | Br _ t f => has_abort t || has_abort f | Abort w => negb (String.prefix "large:" w) end.

Definition single_leaf (t : tree) : option (list expr) :=
  match t with Leaf _ o => Some o | _ => None end.

(* association lists keyed by entry name *)
Fixpoint lookup {A} (n : string) (l : list (string * A)) : option A :=
  match l with
  | [] => None
  | (m, t) :: l' => if String.eqb n m then Some t else lookup n l'
  end.

Definition nth_e (l : list expr) (i : Z) : expr := nth (Z.to_nat i) l (Cnan KB).
