(* OrHom.v -- straight-line "magic mask" bit ladders (glm/gtc/bitfield.inl bitfieldInterleave / bitfieldDeinterleave):
   a small program representation that the translator tools/trace/gen_C18.py emits from the C++ text, its executable
   semantics, and the lifting lemma that makes a finite check a theorem for EVERY input:

     every register pipeline is a homomorphism for bitwise OR  (f 0 = 0, f (a | b) = f a | f b),
     so f is determined by its values on the single-bit inputs 2^i:   f x = OR_{i : bit i of x} f (2^i).

   `orbits f n x` is that OR; `hom_orbits` is the lemma.  Spreading/compacting specifications are written directly in
   orbits form (`spread`), with `spread_testbit` giving their meaning bit by bit. *)
Require Import ZArith List Bool Lia.
Import ListNotations.
Local Open Scope Z_scope.

(* ---------------------------------------------------------------- programs *)
(* one step of a register pipeline:  r = ((r << s) | r) & m     (dir = true: <<, false: >>);  s = 0 encodes  r = r & m *)
Record step := { dir : bool; sh : Z; msk : Z }.
(* a register: which argument initialises it, an initial right shift of that argument (x >>= 1 in Deinterleave),
   the steps, and the left shift applied where the register is OR-ed into the result *)
Record reg := { arg : nat; init_shr : Z; steps : list step; out_shl : Z }.
(* rw: width in bits of the register type; every assignment truncates to it *)
Definition trunc (rw x : Z) : Z := Z.land x (Z.ones rw).
Definition run_step (rw : Z) (r : Z) (s : step) : Z :=
  trunc rw (Z.land (Z.lor (if dir s then Z.shiftl r (sh s) else Z.shiftr r (sh s)) r) (msk s)).
Definition run_reg (rw : Z) (g : reg) (x : Z) : Z :=
  trunc rw (Z.shiftl (fold_left (run_step rw) (steps g) (trunc rw (Z.shiftr x (init_shr g)))) (out_shl g)).
(* interleave: OR of all registers; deinterleave: the vector of registers *)
Definition run_or (rw : Z) (regs : list reg) (args : list Z) : Z :=
  fold_left (fun acc g => Z.lor acc (run_reg rw g (nth (arg g) args 0))) regs 0.
Definition run_vec (rw : Z) (regs : list reg) (args : list Z) : list Z :=
  map (fun g => run_reg rw g (nth (arg g) args 0)) regs.

(* ---------------------------------------------------------------- OR-homomorphisms on the non-negative integers *)
Definition hom (f : Z -> Z) : Prop :=
  f 0 = 0 /\ (forall a, 0 <= a -> 0 <= f a) /\ (forall a b, 0 <= a -> 0 <= b -> f (Z.lor a b) = Z.lor (f a) (f b)).

Lemma hom_id : hom (fun x => x).
Proof. repeat split; auto. Qed.
Lemma hom_comp f g : hom f -> hom g -> hom (fun x => g (f x)).
Proof.
  intros (f0 & fp & fo) (g0 & gp & go). repeat split.
  - now rewrite f0.
  - intros a Ha. apply gp, fp, Ha.
  - intros a b Ha Hb. rewrite fo, go by auto. reflexivity.
Qed.
Lemma hom_land m : 0 <= m -> hom (fun x => Z.land x m).
Proof.
  intros Hm. repeat split.
  - intros a Ha. apply Z.land_nonneg. now left.
  - intros a b _ _. apply Z.land_lor_distr_l.
Qed.
Lemma hom_shiftl s : 0 <= s -> hom (fun x => Z.shiftl x s).
Proof.
  intros Hs. repeat split.
  - apply Z.shiftl_0_l.
  - intros a Ha. now apply Z.shiftl_nonneg.
  - intros a b _ _. apply Z.shiftl_lor.
Qed.
Lemma hom_shiftr s : 0 <= s -> hom (fun x => Z.shiftr x s).
Proof.
  intros Hs. repeat split.
  - apply Z.shiftr_0_l.
  - intros a Ha. now apply Z.shiftr_nonneg.
  - intros a b _ _. apply Z.shiftr_lor.
Qed.
Lemma hom_lor f g : hom f -> hom g -> hom (fun x => Z.lor (f x) (g x)).
Proof.
  intros (f0 & fp & fo) (g0 & gp & go). repeat split.
  - now rewrite f0, g0.
  - intros a Ha. apply Z.lor_nonneg. split; auto.
  - intros a b Ha Hb. rewrite fo, go by auto.
    rewrite <- !Z.lor_assoc. f_equal. rewrite !Z.lor_assoc. f_equal. apply Z.lor_comm.
Qed.
Lemma hom_trunc rw : 0 <= rw -> hom (trunc rw).
Proof. intros H. apply hom_land. rewrite Z.ones_equiv. pose proof (Z.pow_pos_nonneg 2 rw). lia. Qed.

(* a step is well formed when its shift and mask are non-negative *)
Definition step_ok (s : step) : bool := (0 <=? sh s) && (0 <=? msk s).
Definition reg_ok (g : reg) : bool := (0 <=? init_shr g) && (0 <=? out_shl g) && forallb step_ok (steps g).

Lemma hom_step rw s : 0 <= rw -> step_ok s = true -> hom (fun r => run_step rw r s).
Proof.
  intros Hrw Hs. unfold step_ok in Hs. apply andb_true_iff in Hs as [H1 H2]. apply Z.leb_le in H1, H2.
  unfold run_step.
  apply (hom_comp (fun r => Z.land (Z.lor (if dir s then Z.shiftl r (sh s) else Z.shiftr r (sh s)) r) (msk s)) (trunc rw)); [|now apply hom_trunc].
  apply (hom_comp (fun r => Z.lor (if dir s then Z.shiftl r (sh s) else Z.shiftr r (sh s)) r) (fun y => Z.land y (msk s))); [|now apply hom_land].
  apply (hom_lor (fun r => if dir s then Z.shiftl r (sh s) else Z.shiftr r (sh s)) (fun r => r)); [|apply hom_id].
  destruct (dir s); [now apply hom_shiftl | now apply hom_shiftr].
Qed.
Lemma hom_steps rw l : 0 <= rw -> forallb step_ok l = true -> hom (fun r => fold_left (run_step rw) l r).
Proof.
  intros Hrw. induction l as [|s l IH]; intros Hl; cbn [fold_left].
  - apply hom_id.
  - cbn [forallb] in Hl. apply andb_true_iff in Hl as [Hs Hl].
    apply (hom_comp (fun r => run_step rw r s) (fun r => fold_left (run_step rw) l r)); [now apply hom_step | now apply IH].
Qed.
Lemma hom_reg rw g : 0 <= rw -> reg_ok g = true -> hom (run_reg rw g).
Proof.
  intros Hrw Hg. unfold reg_ok in Hg. apply andb_true_iff in Hg as [Hg H3]. apply andb_true_iff in Hg as [H1 H2].
  apply Z.leb_le in H1, H2. unfold run_reg.
  apply (hom_comp (fun x => Z.shiftl (fold_left (run_step rw) (steps g) (trunc rw (Z.shiftr x (init_shr g)))) (out_shl g)) (trunc rw)); [|now apply hom_trunc].
  apply (hom_comp (fun x => fold_left (run_step rw) (steps g) (trunc rw (Z.shiftr x (init_shr g)))) (fun y => Z.shiftl y (out_shl g))); [|now apply hom_shiftl].
  apply (hom_comp (fun x => trunc rw (Z.shiftr x (init_shr g))) (fun r => fold_left (run_step rw) (steps g) r)); [|now apply hom_steps].
  apply (hom_comp (fun x => Z.shiftr x (init_shr g)) (trunc rw)); [now apply hom_shiftr | now apply hom_trunc].
Qed.

(* ---------------------------------------------------------------- decomposition into single bits *)
Fixpoint orbits (f : Z -> Z) (n : nat) (x : Z) : Z :=
  match n with O => 0 | S k => Z.lor (orbits f k x) (if Z.testbit x (Z.of_nat k) then f (2 ^ Z.of_nat k) else 0) end.

Lemma split_top k x : 0 <= x < 2 ^ Z.of_nat (S k) ->
  x = Z.lor (x mod 2 ^ Z.of_nat k) (if Z.testbit x (Z.of_nat k) then 2 ^ Z.of_nat k else 0).
Proof.
  intros Hx. apply Z.bits_inj'. intros i Hi. rewrite Z.lor_spec.
  destruct (Z_lt_le_dec i (Z.of_nat k)) as [Hlt|Hge].
  - rewrite Z.mod_pow2_bits_low by lia.
    destruct (Z.testbit x (Z.of_nat k)); [rewrite Z.pow2_bits_false by lia | rewrite Z.bits_0]; now rewrite orb_false_r.
  - rewrite Z.mod_pow2_bits_high by lia. cbn [orb].
    destruct (Z.eq_dec i (Z.of_nat k)) as [->|Hne].
    + destruct (Z.testbit x (Z.of_nat k)) eqn:E; [now rewrite Z.pow2_bits_true by lia | now rewrite Z.bits_0].
    + assert (Hb : Z.testbit x i = false).
      { destruct (Z.eq_dec x 0) as [->|Hx0]; [apply Z.bits_0|]. apply Z.bits_above_log2; [lia|].
        apply Z.log2_lt_pow2; [lia|]. rewrite Nat2Z.inj_succ in Hx. apply Z.lt_le_trans with (2 ^ Z.succ (Z.of_nat k)); [lia|].
        apply Z.pow_le_mono_r; lia. }
      rewrite Hb. destruct (Z.testbit x (Z.of_nat k)); [now rewrite Z.pow2_bits_false by lia | now rewrite Z.bits_0].
Qed.

Lemma orbits_mod f k x : 0 <= x -> orbits f k (x mod 2 ^ Z.of_nat k) = orbits f k x.
Proof.
  intros Hx. assert (G : forall j, (j <= k)%nat -> orbits f j (x mod 2 ^ Z.of_nat k) = orbits f j x).
  { induction j as [|j IH]; intros Hj; cbn [orbits]; [reflexivity|]. rewrite IH by lia.
    rewrite Z.mod_pow2_bits_low by lia. reflexivity. }
  apply G. lia.
Qed.

Lemma hom_orbits f n x : hom f -> 0 <= x < 2 ^ Z.of_nat n -> f x = orbits f n x.
Proof.
  intros Hf. revert x. induction n as [|k IH]; intros x Hx.
  - cbn in Hx. assert (x = 0) by lia. subst. cbn. apply Hf.
  - cbn [orbits]. destruct Hf as (f0 & fp & fo).
    rewrite (split_top k x Hx) at 1.
    assert (Hm : 0 <= x mod 2 ^ Z.of_nat k < 2 ^ Z.of_nat k) by (apply Z.mod_pos_bound, Z.pow_pos_nonneg; lia).
    rewrite fo.
    + rewrite IH by exact Hm. rewrite orbits_mod by lia.
      destruct (Z.testbit x (Z.of_nat k)); [reflexivity | now rewrite f0].
    + lia.
    + destruct (Z.testbit x (Z.of_nat k)); [apply Z.pow_nonneg|]; lia.
Qed.

Lemma orbits_ext f g n x : (forall i, (i < n)%nat -> f (2 ^ Z.of_nat i) = g (2 ^ Z.of_nat i)) -> orbits f n x = orbits g n x.
Proof.
  induction n as [|k IH]; intros H; cbn [orbits]; [reflexivity|].
  rewrite IH by (intros; apply H; lia). rewrite H by lia. reflexivity.
Qed.

(* two homomorphisms that agree on 2^0 .. 2^(n-1) agree on [0, 2^n) *)
Lemma hom_ext f g n : hom f -> hom g -> (forall i, (i < n)%nat -> f (2 ^ Z.of_nat i) = g (2 ^ Z.of_nat i)) ->
  forall x, 0 <= x < 2 ^ Z.of_nat n -> f x = g x.
Proof. intros Hf Hg H x Hx. rewrite (hom_orbits f n x Hf Hx), (hom_orbits g n x Hg Hx). now apply orbits_ext. Qed.

(* the finite check, as a boolean over i < n *)
Fixpoint all_below (n : nat) (p : nat -> bool) : bool := match n with O => true | S k => all_below k p && p k end.
Lemma all_below_spec n p : all_below n p = true -> forall i, (i < n)%nat -> p i = true.
Proof.
  induction n as [|k IH]; intros H i Hi; [lia|]. cbn in H. apply andb_true_iff in H as [H1 H2].
  destruct (Nat.eq_dec i k) as [->|]; [exact H2 | apply IH; [exact H1 | lia]].
Qed.

(* ---------------------------------------------------------------- specification: spreading bits *)
(* bit i of x goes to bit n*i + k *)
Definition spread (n k : Z) (bits : nat) (x : Z) : Z := orbits (fun p => Z.shiftl (p ^ n) k) bits x.
(* on a single bit 2^i the function above is 2^(n*i + k) *)
Lemma spread_bit n k i : 0 <= n -> 0 <= k -> Z.shiftl ((2 ^ Z.of_nat i) ^ n) k = 2 ^ (n * Z.of_nat i + k).
Proof. intros Hn Hk. rewrite Z.shiftl_mul_pow2 by lia. rewrite <- Z.pow_mul_r by lia. rewrite <- Z.pow_add_r by lia. f_equal. lia. Qed.

Lemma orbits_nonneg f n x : (forall i, 0 <= f (2 ^ Z.of_nat i)) -> 0 <= orbits f n x.
Proof. intros H. induction n as [|k IH]; cbn [orbits]; [lia|]. apply Z.lor_nonneg. split; [exact IH|]. destruct (Z.testbit x (Z.of_nat k)); [apply H | lia]. Qed.

Lemma spread_testbit n k bits x j : 0 < n -> 0 <= k < n -> 0 <= j ->
  Z.testbit (spread n k bits x) j =
  if ((j - k) mod n =? 0) && (k <=? j) && ((j - k) / n <? Z.of_nat bits) then Z.testbit x ((j - k) / n) else false.
Proof.
  intros Hn Hk Hj. unfold spread. induction bits as [|b IH]; cbn [orbits].
  - rewrite Z.bits_0. destruct ((j - k) mod n =? 0); cbn [andb]; [|reflexivity]. destruct (k <=? j) eqn:E; cbn [andb]; [|reflexivity].
    apply Z.leb_le in E. assert (0 <= (j - k) / n) by (apply Z.div_pos; lia).
    replace ((j - k) / n <? Z.of_nat 0) with false by (symmetry; apply Z.ltb_ge; cbn; lia). reflexivity.
  - rewrite Z.lor_spec, IH. clear IH.
    assert (Hbit : Z.testbit (if Z.testbit x (Z.of_nat b) then Z.shiftl ((2 ^ Z.of_nat b) ^ n) k else 0) j
                   = Z.testbit x (Z.of_nat b) && (n * Z.of_nat b + k =? j)).
    { destruct (Z.testbit x (Z.of_nat b)); [|apply Z.bits_0]. rewrite spread_bit by lia. cbn [andb]. apply Z.pow2_bits_eqb. nia. }
    rewrite Hbit. clear Hbit.
    destruct (n * Z.of_nat b + k =? j) eqn:Ej.
    + apply Z.eqb_eq in Ej. assert (Hd : (j - k) / n = Z.of_nat b) by (replace (j - k) with (Z.of_nat b * n) by lia; apply Z.div_mul; lia).
      assert (Hm : (j - k) mod n = 0) by (replace (j - k) with (Z.of_nat b * n) by lia; apply Z.mod_mul; lia).
      rewrite Hd, Hm. replace (k <=? j) with true by (symmetry; apply Z.leb_le; nia).
      replace (Z.of_nat b <? Z.of_nat b) with false by (symmetry; apply Z.ltb_ge; lia).
      replace (Z.of_nat b <? Z.of_nat (S b)) with true by (symmetry; apply Z.ltb_lt; lia).
      cbn. now destruct (Z.testbit x (Z.of_nat b)).
    + rewrite andb_false_r, orb_false_r. apply Z.eqb_neq in Ej.
      destruct ((j - k) mod n =? 0) eqn:Em; cbn [andb]; [|reflexivity]. apply Z.eqb_eq in Em.
      destruct (k <=? j) eqn:Ek; cbn [andb]; [|reflexivity]. apply Z.leb_le in Ek.
      assert (Hq : j = n * ((j - k) / n) + k) by (pose proof (Z.div_mod (j - k) n); lia).
      set (q := (j - k) / n) in *.
      destruct (q <? Z.of_nat b) eqn:E1; destruct (q <? Z.of_nat (S b)) eqn:E2; try reflexivity.
      * apply Z.ltb_lt in E1; apply Z.ltb_ge in E2; lia.
      * apply Z.ltb_ge in E1; apply Z.ltb_lt in E2. assert (q = Z.of_nat b) by lia. subst q. exfalso. apply Ej. lia.
Qed.

(* identity in orbits form *)
Lemma orbits_id n x : 0 <= x < 2 ^ Z.of_nat n -> orbits (fun p => p) n x = x.
Proof. intros H. symmetry. apply (hom_orbits (fun p => p) n x hom_id H). Qed.
Lemma orbits_zero f n x : (forall i, (i < n)%nat -> f (2 ^ Z.of_nat i) = 0) -> orbits f n x = 0.
Proof.
  induction n as [|k IH]; intros H; cbn [orbits]; [reflexivity|]. rewrite IH by (intros; apply H; lia). rewrite H by lia.
  now destruct (Z.testbit x (Z.of_nat k)).
Qed.

(* ---------------------------------------------------------------- whole ladders *)
Lemma fold_lor_map {A} (f : A -> Z) (l : list A) acc : fold_left (fun a g => Z.lor a (f g)) l acc = fold_left Z.lor (map f l) acc.
Proof. revert acc. induction l as [|g l IH]; intros acc; cbn [fold_left map]; [reflexivity | apply IH]. Qed.

(* n arguments of b bits: bit i of argument k goes to bit n*i + k *)
Definition spec_or (n b : nat) (args : list Z) : Z :=
  fold_left Z.lor (map (fun k => spread (Z.of_nat n) (Z.of_nat k) b (nth k args 0)) (seq 0 n)) 0.

Definition reg_check (rw : Z) (n b k : nat) (g : reg) : bool :=
  reg_ok g && Nat.eqb (arg g) k &&
  all_below b (fun i => run_reg rw g (2 ^ Z.of_nat i) =? 2 ^ (Z.of_nat n * Z.of_nat i + Z.of_nat k)).
Fixpoint regs_check (rw : Z) (n b k : nat) (regs : list reg) : bool :=
  match regs with [] => true | g :: r => reg_check rw n b k g && regs_check rw n b (S k) r end.
Definition ladder_check (rw : Z) (n b : nat) (regs : list reg) : bool :=
  (0 <=? rw) && Nat.eqb (length regs) n && regs_check rw n b 0 regs.

Lemma reg_spread rw n b k g x : 0 <= rw -> reg_check rw n b k g = true -> 0 <= x < 2 ^ Z.of_nat b ->
  run_reg rw g x = spread (Z.of_nat n) (Z.of_nat k) b x.
Proof.
  intros Hrw Hc Hx. unfold reg_check in Hc. apply andb_true_iff in Hc as [Hc H3]. apply andb_true_iff in Hc as [H1 H2].
  rewrite (hom_orbits _ b x (hom_reg rw g Hrw H1) Hx). unfold spread. apply orbits_ext. intros i Hi.
  pose proof (all_below_spec b _ H3 i Hi) as E. cbv beta in E. apply Z.eqb_eq in E. rewrite E.
  symmetry. apply spread_bit; lia.
Qed.

Lemma regs_map rw n b args : 0 <= rw -> forall regs k0, regs_check rw n b k0 regs = true ->
  (forall k, (k0 <= k < k0 + length regs)%nat -> 0 <= nth k args 0 < 2 ^ Z.of_nat b) ->
  map (fun g => run_reg rw g (nth (arg g) args 0)) regs = map (fun k => spread (Z.of_nat n) (Z.of_nat k) b (nth k args 0)) (seq k0 (length regs)).
Proof.
  intros Hrw. induction regs as [|g r IH]; intros k0 Hc Ha; [reflexivity|].
  cbn [regs_check] in Hc. apply andb_true_iff in Hc as [Hg Hr]. cbn [map length seq]. f_equal.
  - assert (Harg : arg g = k0).
    { unfold reg_check in Hg. apply andb_true_iff in Hg as [Hg _]. apply andb_true_iff in Hg as [_ Hg]. now apply Nat.eqb_eq in Hg. }
    rewrite Harg. apply (reg_spread rw n b k0 g _ Hrw Hg). apply Ha. cbn [length]. lia.
  - apply IH; [exact Hr|]. intros k Hk. apply Ha. cbn [length]. lia.
Qed.

Theorem run_or_ok rw n b regs : ladder_check rw n b regs = true ->
  forall args, (forall k, (k < n)%nat -> 0 <= nth k args 0 < 2 ^ Z.of_nat b) -> run_or rw regs args = spec_or n b args.
Proof.
  intros Hc args Ha. unfold ladder_check in Hc. apply andb_true_iff in Hc as [Hc H3]. apply andb_true_iff in Hc as [H1 H2].
  apply Z.leb_le in H1. apply Nat.eqb_eq in H2. unfold run_or, spec_or. rewrite fold_lor_map.
  rewrite (regs_map rw n b args H1 regs 0%nat H3); [now rewrite H2|]. intros k Hk. apply Ha. lia.
Qed.

Lemma fold_lor_testbit l acc j : Z.testbit (fold_left Z.lor l acc) j = Z.testbit acc j || existsb (fun v => Z.testbit v j) l.
Proof.
  revert acc. induction l as [|v l IH]; intros acc; cbn [fold_left existsb]; [now rewrite orb_false_r|].
  rewrite IH, Z.lor_spec. now rewrite orb_assoc.
Qed.

Lemma existsb_single (f : nat -> bool) (k0 : nat) v : forall n s, (forall k, (s <= k < s + n)%nat -> f k = if Nat.eqb k k0 then v else false) ->
  existsb f (seq s n) = if (Nat.leb s k0) && (Nat.ltb k0 (s + n)) then v else false.
Proof.
  induction n as [|n IH]; intros s H; cbn [seq existsb].
  - destruct (Nat.leb_spec s k0); destruct (Nat.ltb_spec k0 (s + 0)); cbn [andb]; try reflexivity; lia.
  - rewrite IH by (intros k Hk; apply H; lia). rewrite H by lia.
    destruct (Nat.eqb_spec s k0); destruct (Nat.leb_spec s k0); destruct (Nat.leb_spec (S s) k0);
      destruct (Nat.ltb_spec k0 (S s + n)); destruct (Nat.ltb_spec k0 (s + S n)); cbn [andb orb]; try reflexivity; try lia; destruct v; reflexivity.
Qed.

Lemma existsb_map' {A B} (f : A -> B) (p : B -> bool) l : existsb p (map f l) = existsb (fun a => p (f a)) l.
Proof. induction l as [|a l IH]; cbn [map existsb]; [reflexivity | now rewrite IH]. Qed.

(* the meaning of spec_or, bit by bit: bit j of the result is bit j/n of argument j mod n (0 beyond b bits) *)
Theorem spec_or_testbit (n b : nat) args j : (0 < n)%nat -> 0 <= j ->
  Z.testbit (spec_or n b args) j =
  if j / Z.of_nat n <? Z.of_nat b then Z.testbit (nth (Z.to_nat (j mod Z.of_nat n)) args 0) (j / Z.of_nat n) else false.
Proof.
  intros Hn Hj. unfold spec_or. rewrite fold_lor_testbit, Z.bits_0. cbn [orb]. rewrite existsb_map'.
  set (N := Z.of_nat n). assert (HN : 0 < N) by (unfold N; lia).
  pose proof (Z.mod_pos_bound j N HN) as Hm. pose proof (Z.div_mod j N ltac:(lia)) as Hdm.
  rewrite (existsb_single _ (Z.to_nat (j mod N)) (if j / N <? Z.of_nat b then Z.testbit (nth (Z.to_nat (j mod N)) args 0) (j / N) else false)).
  - replace (Nat.leb 0 (Z.to_nat (j mod N))) with true by (symmetry; apply Nat.leb_le; lia).
    replace (Nat.ltb (Z.to_nat (j mod N)) (0 + n)) with true by (symmetry; apply Nat.ltb_lt; unfold N in *; lia). reflexivity.
  - intros k Hk. rewrite spread_testbit by (fold N; lia). fold N.
    destruct (Nat.eqb k (Z.to_nat (j mod N))) eqn:E.
    + apply Nat.eqb_eq in E. assert (Hk' : Z.of_nat k = j mod N) by lia. rewrite Hk'.
      assert (E1 : (j - j mod N) mod N = 0) by (replace (j - j mod N) with (j / N * N) by lia; apply Z.mod_mul; lia).
      assert (E2 : (j - j mod N) / N = j / N) by (replace (j - j mod N) with (j / N * N) by lia; apply Z.div_mul; lia).
      assert (Hq0 : 0 <= j / N) by (apply Z.div_pos; lia).
      rewrite E1, E2. replace (j mod N <=? j) with true by (symmetry; apply Z.leb_le; nia). cbn [Z.eqb andb].
      rewrite <- E. reflexivity.
    + apply Nat.eqb_neq in E. replace ((j - Z.of_nat k) mod N =? 0) with false; [reflexivity|].
      symmetry. apply Z.eqb_neq. intros Hz. apply E.
      assert (Hkk : 0 <= Z.of_nat k < N) by (unfold N; lia).
      apply Z.mod_divide in Hz; [|lia]. destruct Hz as [q Hq].
      assert (j mod N = Z.of_nat k); [|lia].
      symmetry. apply (Z.mod_unique_pos j N q (Z.of_nat k)); lia.
Qed.

(* ---- deinterleave inverts interleave (pairs) *)
Definition de_check (rwi : Z) (f0 f1 : reg) (rwd ow : Z) (d0 d1 : reg) (b : nat) : bool :=
  (0 <=? rwi) && (0 <=? rwd) && (0 <=? ow) && reg_ok f0 && reg_ok f1 && reg_ok d0 && reg_ok d1 &&
  Nat.eqb (arg f0) 0 && Nat.eqb (arg f1) 1 && Nat.eqb (arg d0) 0 && Nat.eqb (arg d1) 0 &&
  all_below b (fun i => let p := 2 ^ Z.of_nat i in
     (trunc ow (run_reg rwd d0 (run_reg rwi f0 p)) =? p) && (trunc ow (run_reg rwd d0 (run_reg rwi f1 p)) =? 0) &&
     (trunc ow (run_reg rwd d1 (run_reg rwi f0 p)) =? 0) && (trunc ow (run_reg rwd d1 (run_reg rwi f1 p)) =? p)).

Lemma hom_zero : hom (fun _ => 0).
Proof. repeat split; auto; lia. Qed.

Theorem deinterleave_ok rwi f0 f1 rwd ow d0 d1 b : de_check rwi f0 f1 rwd ow d0 d1 b = true ->
  forall x y, 0 <= x < 2 ^ Z.of_nat b -> 0 <= y < 2 ^ Z.of_nat b ->
  map (trunc ow) (run_vec rwd [d0; d1] [run_or rwi [f0; f1] [x; y]]) = [x; y].
Proof.
  intros Hc x y Hx Hy. unfold de_check in Hc.
  repeat match type of Hc with (_ && _) = true => let H := fresh "C" in apply andb_true_iff in Hc as [Hc H] end.
  apply Z.leb_le in Hc, C9, C8. apply Nat.eqb_eq in C3, C2, C1, C0.
  pose proof (all_below_spec b _ C) as HB. cbv beta zeta in HB.
  unfold run_vec, run_or. cbn [map fold_left]. rewrite C3, C2, C1, C0. cbn [nth]. rewrite Z.lor_0_l.
  set (F0 := run_reg rwi f0). set (F1 := run_reg rwi f1).
  assert (hF0 : hom F0) by (apply hom_reg; assumption). assert (hF1 : hom F1) by (apply hom_reg; assumption).
  assert (G : forall d, reg_ok d = true -> forall p q, 0 <= p -> 0 <= q ->
              trunc ow (run_reg rwd d (Z.lor (F0 p) (F1 q))) = Z.lor (trunc ow (run_reg rwd d (F0 p))) (trunc ow (run_reg rwd d (F1 q)))).
  { intros d Hd p q Hp Hq. pose proof (hom_comp _ _ (hom_reg rwd d C9 Hd) (hom_trunc ow C8)) as (_ & _ & Ho). cbv beta in Ho.
    apply Ho; [apply hF0 | apply hF1]; assumption. }
  rewrite !G by (assumption || lia).
  assert (K : forall d F (g : Z -> Z), reg_ok d = true -> hom F -> hom g ->
              (forall i, (i < b)%nat -> trunc ow (run_reg rwd d (F (2 ^ Z.of_nat i))) = g (2 ^ Z.of_nat i)) ->
              forall v, 0 <= v < 2 ^ Z.of_nat b -> trunc ow (run_reg rwd d (F v)) = g v).
  { intros d F g Hd HF Hg Hb v Hv.
    apply (hom_ext (fun v => trunc ow (run_reg rwd d (F v))) g b); [|exact Hg|exact Hb|exact Hv].
    apply (hom_comp F (fun u => trunc ow (run_reg rwd d u)) HF). apply (hom_comp _ _ (hom_reg rwd d C9 Hd) (hom_trunc ow C8)). }
  rewrite (K d0 F0 (fun p => p) C5 hF0 hom_id) by (try assumption; intros i Hi; specialize (HB i Hi); repeat (apply andb_true_iff in HB as [HB ?]); now apply Z.eqb_eq).
  rewrite (K d0 F1 (fun _ => 0) C5 hF1 hom_zero) by (try assumption; intros i Hi; specialize (HB i Hi); repeat (apply andb_true_iff in HB as [HB ?]); now apply Z.eqb_eq).
  rewrite (K d1 F0 (fun _ => 0) C4 hF0 hom_zero) by (try assumption; intros i Hi; specialize (HB i Hi); repeat (apply andb_true_iff in HB as [HB ?]); now apply Z.eqb_eq).
  rewrite (K d1 F1 (fun p => p) C4 hF1 hom_id) by (try assumption; intros i Hi; specialize (HB i Hi); repeat (apply andb_true_iff in HB as [HB ?]); now apply Z.eqb_eq).
  rewrite Z.lor_0_r, Z.lor_0_l. reflexivity.
Qed.
