(* SpecSwizzle.v -- C17: what a swizzle name and a constructor signature mean, independently of GLM.
   Entry names are parsed:  swz_<form>_<L>_<letters>,  swzw_<form>_<L>_<letters>,
   ctor_<dst>_<L>_<shape>_<kinds>. *)
Require Import ZArith List String Ascii Bool.
Import ListNotations.
From GLMV Require Import Expr Cat.
Local Open Scope Z_scope.

Fixpoint split_on (c : ascii) (s : string) (acc : string) : list string :=
  match s with
  | EmptyString => [acc]
  | String a r => if Ascii.eqb a c then acc :: split_on c r EmptyString else split_on c r (acc ++ String a EmptyString)%string
  end.
Definition fields (s : string) : list string := split_on "_"%char s EmptyString.

(* component index named by a letter, in any of the three letter sets *)
Definition letter_index (a : ascii) : option Z :=
  if existsb (Ascii.eqb a) ["x"; "r"; "s"]%char then Some 0 else
  if existsb (Ascii.eqb a) ["y"; "g"; "t"]%char then Some 1 else
  if existsb (Ascii.eqb a) ["z"; "b"; "p"]%char then Some 2 else
  if existsb (Ascii.eqb a) ["w"; "a"; "q"]%char then Some 3 else None.
Fixpoint letters (s : string) : option (list Z) :=
  match s with
  | EmptyString => Some []
  | String a r => match letter_index a, letters r with Some i, Some l => Some (i :: l) | _, _ => None end
  end.
Definition digit_of (s : string) : option Z :=
  match s with String a EmptyString => let n := Z.of_nat (nat_of_ascii a) - 48 in if (0 <=? n) && (n <=? 9) then Some n else None | _ => None end.

(* reading swizzle: the named components in the named order *)
Definition swizzle_read_spec (k : kind) (name : string) : option (list expr) :=
  option_map (map (fun i => V k 0 i)) (letters name).
(* writing through a swizzle of a length-L vector: exactly the named components change; component j receives
   right-hand-side component n when the n-th letter names j *)
Fixpoint find_pos (j : Z) (l : list Z) (n : Z) : option Z :=
  match l with [] => None | i :: r => if i =? j then Some n else find_pos j r (n + 1) end.
Definition swizzle_write_spec (k : kind) (L : Z) (name : string) : option (list expr) :=
  option_map (fun ls => map (fun j => match find_pos j ls 0 with Some n => V k 1 n | None => V k 0 j end) (zseq L)) (letters name).

(* v.NAME = s (scalar): the named components all become s;  v.NAME op= r: named component j (the n-th letter) becomes v_j op r_n *)
Definition swizzle_scalar_spec (k : kind) (L : Z) (name : string) : option (list expr) :=
  option_map (fun ls => map (fun j => match find_pos j ls 0 with Some _ => V k 1 0 | None => V k 0 j end) (zseq L)) (letters name).
Definition swizzle_compound_spec (o : binop) (k : kind) (L : Z) (name : string) : option (list expr) :=
  option_map (fun ls => map (fun j => match find_pos j ls 0 with Some n => B o k (V k 0 j) (V k 1 n) | None => V k 0 j end) (zseq L)) (letters name).

(* all words of length n over the first L letters of an alphabet *)
Fixpoint words (alpha : list ascii) (n : nat) : list string :=
  match n with O => [EmptyString] | S m => flat_map (fun a => map (fun w => String a w) (words alpha m)) alpha end.
Definition alphabets : list (list ascii) := [["x"; "y"; "z"; "w"]; ["r"; "g"; "b"; "a"]; ["s"; "t"; "p"; "q"]]%char.
Definition all_words (L : nat) : list string :=
  flat_map (fun n => flat_map (fun al => words (firstn L al) n) alphabets) [2; 3; 4]%nat.
Definition xyzw_words (L : nat) : list string := flat_map (fun n => words (firstn L ["x"; "y"; "z"; "w"]%char) n) [2; 3; 4]%nat.
Definition nodup_letters (w : string) : bool := match letters w with Some l => Z.of_nat (List.length (nodup Z.eq_dec l)) =? Z.of_nat (List.length l) | None => false end.

(* constructor shapes:  s = scalar, b = single scalar broadcast, v<k> = vector of k, t<k> = longer vector truncated.
   Output component sequence = the arguments' components left to right, each converted to the destination kind. *)
Definition kind_of_char (a : ascii) : kind := if Ascii.eqb a "i"%char then I32 else F32.
Definition conv (dst src : kind) (e : expr) : expr := if kind_eqb dst src then e else Cv dst src e.
Fixpoint parse_shape (s : string) : option (list (ascii * Z)) :=
  match s with
  | EmptyString => Some []
  | String "s" r => option_map (cons ("s"%char, 1)) (parse_shape r)
  | String "b" r => option_map (cons ("b"%char, 1)) (parse_shape r)
  | String c (String d r) => match digit_of (String d EmptyString), parse_shape r with Some n, Some l => Some ((c, n) :: l) | _, _ => None end
  | _ => None
  end.
Fixpoint ctor_args (dst : kind) (L : Z) (args : list (ascii * Z)) (kinds : list ascii) (a : Z) : list expr :=
  match args, kinds with
  | (c, n) :: r, kc :: kr =>
      let k := kind_of_char kc in
      (if Ascii.eqb c "b"%char then map (fun _ => conv dst k (V k a 0)) (zseq L)
       else if Ascii.eqb c "t"%char then map (fun i => conv dst k (V k a i)) (zseq L)
       else map (fun i => conv dst k (V k a i)) (zseq n)) ++ ctor_args dst L r kr (a + 1)
  | _, _ => []
  end.
Definition ctor_spec (dst : kind) (L : Z) (shape kinds : string) : option (list expr) :=
  match parse_shape shape with
  | Some args => Some (ctor_args dst L args (list_ascii_of_string kinds) 0)
  | None => None
  end.
