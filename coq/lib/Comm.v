(* Comm.v -- equality of expressions modulo commutativity of + * & | ^ (relation R2 of DESIGN.md),
   with soundness for the real and the machine-integer semantics. *)
Require Import ZArith List Bool Reals Lia.
Import ListNotations.
From GLMV Require Import Expr SemR SemZ.
Local Open Scope Z_scope.

Definition comm_op (o : binop) : bool := match o with Add | Mul | BAnd | BOr | BXor => true | _ => false end.

Fixpoint expr_eqc (a b : expr) {struct a} : bool :=
  match a, b with
  | B o k x y, B o' k' x' y' =>
      binop_beq o o' && kind_eqb k k' &&
      ((expr_eqc x x' && expr_eqc y y') || (comm_op o && expr_eqc x y' && expr_eqc y x'))
  | U o k x, U o' k' x' => unop_beq o o' && kind_eqb k k' && expr_eqc x x'
  | Fma k x y z, Fma k' x' y' z' => kind_eqb k k' && ((expr_eqc x x' && expr_eqc y y') || (expr_eqc x y' && expr_eqc y x')) && expr_eqc z z'
  | Cmp o k x y, Cmp o' k' x' y' => cmpop_beq o o' && kind_eqb k k' && expr_eqc x x' && expr_eqc y y'
  | Tst o k x, Tst o' k' x' => tstop_beq o o' && kind_eqb k k' && expr_eqc x x'
  | LNot x, LNot x' => expr_eqc x x'
  | LAnd x y, LAnd x' y' => expr_eqc x x' && expr_eqc y y'
  | LOr x y, LOr x' y' => expr_eqc x x' && expr_eqc y y'
  | Cv d s x, Cv d' s' x' => kind_eqb d d' && kind_eqb s s' && expr_eqc x x'
  | _, _ => expr_eqb a b
  end.

Fixpoint list_eqc (l1 l2 : list expr) : bool :=
  match l1, l2 with
  | [], [] => true
  | x :: l1', y :: l2' => expr_eqc x y && list_eqc l1' l2'
  | _, _ => false
  end.

Ltac norm_hyps :=
  repeat match goal with
  | H : (_ && _)%bool = true |- _ => apply andb_prop in H; destruct H
  | H : kind_eqb _ _ = true |- _ => apply kind_eqb_eq in H; subst
  | H : unop_beq _ _ = true |- _ => apply internal_unop_dec_bl in H; subst
  | H : binop_beq _ _ = true |- _ => apply internal_binop_dec_bl in H; subst
  | H : cmpop_beq _ _ = true |- _ => apply internal_cmpop_dec_bl in H; subst
  | H : tstop_beq _ _ = true |- _ => apply internal_tstop_dec_bl in H; subst
  | H : Z.eqb _ _ = true |- _ => apply Z.eqb_eq in H; subst
  | H : Bool.eqb _ _ = true |- _ => apply Bool.eqb_prop in H; subst
  end.

Lemma binR_comm o x y : comm_op o = true -> binR o x y = binR o y x.
Proof. destruct o; simpl; intros H; try discriminate; try reflexivity; ring. Qed.

Ltac use_IH :=
  repeat match goal with
  | IH : forall b, expr_eqc ?x b = true -> _, H : expr_eqc ?x ?y = true |- _ =>
      let E1 := fresh "E" in let E2 := fresh "E" in destruct (IH _ H) as [E1 E2]; clear H
  end.
Ltac rw_R := repeat match goal with
  | H : evalR _ _ = evalR _ _ |- _ => rewrite H; clear H
  | H : evalRB _ _ = evalRB _ _ |- _ => rewrite H; clear H end.
Ltac rw_Z := repeat match goal with
  | H : evalZ _ _ _ = evalZ _ _ _ |- _ => rewrite H; clear H
  | H : evalZB _ _ _ = evalZB _ _ _ |- _ => rewrite H; clear H end.

Lemma eqc_sound_R env : forall a b, expr_eqc a b = true -> evalR env a = evalR env b /\ evalRB env a = evalRB env b.
Proof.
  induction a; destruct b; intros H; simpl in H; try discriminate;
    norm_hyps; try (split; reflexivity);
    repeat match goal with H : (_ || _)%bool = true |- _ => apply orb_prop in H; destruct H end; norm_hyps; use_IH; simpl; rw_R;
    try (split; reflexivity).
  - split; [apply binR_comm; assumption | reflexivity].
  - split; [ring | reflexivity].
Qed.

Lemma list_eqc_sound_R env : forall l1 l2, list_eqc l1 l2 = true -> map (evalR env) l1 = map (evalR env) l2.
Proof.
  induction l1; destruct l2; simpl; intros H; try discriminate; [reflexivity|].
  apply andb_prop in H; destruct H as [H1 H2]. rewrite (proj1 (eqc_sound_R env _ _ H1)), (IHl1 _ H2). reflexivity.
Qed.

Lemma binZ_comm s o k x y : comm_op o = true -> binZ s o k x y = binZ s o k y x.
Proof.
  destruct o; simpl; intros H; try discriminate.
  - rewrite Z.add_comm; reflexivity.
  - rewrite Z.mul_comm; reflexivity.
  - rewrite Z.land_comm; reflexivity.
  - rewrite Z.lor_comm; reflexivity.
  - rewrite Z.lxor_comm; reflexivity.
Qed.

Lemma eqc_sound_Z s env : forall a b, expr_eqc a b = true -> evalZ s env a = evalZ s env b /\ evalZB s env a = evalZB s env b.
Proof.
  induction a; destruct b; intros H; simpl in H; try discriminate;
    norm_hyps; try (split; reflexivity);
    repeat match goal with H : (_ || _)%bool = true |- _ => apply orb_prop in H; destruct H end; norm_hyps; use_IH; simpl; rw_Z;
    try (split; reflexivity).
  - split; [|reflexivity]. destruct (is_int k0); [|reflexivity]. destruct (evalZ s env b2), (evalZ s env b1); simpl; try reflexivity. apply binZ_comm; assumption.
Qed.

Lemma list_eqc_sound_Z s env : forall l1 l2, list_eqc l1 l2 = true -> omap (evalZ s env) l1 = omap (evalZ s env) l2.
Proof.
  induction l1; destruct l2; simpl; intros H; try discriminate; [reflexivity|].
  apply andb_prop in H; destruct H as [H1 H2]. rewrite (proj1 (eqc_sound_Z s env _ _ H1)), (IHl1 _ H2). reflexivity.
Qed.

(* decision trees equal up to the operand order of commutative operators *)
Fixpoint tree_eqc (a b : tree) : bool :=
  match a, b with
  | Leaf p o, Leaf p' o' => list_eqc p p' && list_eqc o o'
  | Br c t f, Br c' t' f' => expr_eqc c c' && tree_eqc t t' && tree_eqc f f'
  | _, _ => false
  end.
Lemma list_eqc_sound_RB env : forall l1 l2, list_eqc l1 l2 = true -> map (evalRB env) l1 = map (evalRB env) l2.
Proof.
  induction l1; destruct l2; simpl; intros H; try discriminate; [reflexivity|].
  apply andb_prop in H; destruct H as [H1 H2]. rewrite (proj2 (eqc_sound_R env _ _ H1)), (IHl1 _ H2). reflexivity.
Qed.
Lemma forallb_map {A} (f : A -> bool) l : forallb f l = forallb (fun b => b) (map f l).
Proof. induction l; simpl; [reflexivity|]. rewrite IHl. reflexivity. Qed.
Lemma tree_eqc_sound_R env : forall a b, tree_eqc a b = true -> evalT env a = evalT env b.
Proof.
  induction a; destruct b; simpl; intros H; try discriminate; split_andb.
  - rewrite (list_eqc_sound_R env _ _ H0). rewrite (forallb_map (evalRB env) pre), (forallb_map (evalRB env) pre0), (list_eqc_sound_RB env _ _ H). reflexivity.
  - rewrite (proj2 (eqc_sound_R env _ _ H)). rewrite (IHa1 _ H1), (IHa2 _ H0). reflexivity.
Qed.
(* composite class: fma(a,b,c) compared with a*b+c (equal in real arithmetic, one rounding apart in IEEE) *)
Fixpoint fma_expand (e : expr) : expr :=
  match e with
  | Fma k x y z => B Add k (B Mul k (fma_expand x) (fma_expand y)) (fma_expand z)
  | U o k x => U o k (fma_expand x)
  | B o k x y => B o k (fma_expand x) (fma_expand y)
  | Cmp o k x y => Cmp o k (fma_expand x) (fma_expand y)
  | Tst o k x => Tst o k (fma_expand x)
  | LNot x => LNot (fma_expand x)
  | LAnd x y => LAnd (fma_expand x) (fma_expand y)
  | LOr x y => LOr (fma_expand x) (fma_expand y)
  | Cv d s x => Cv d s (fma_expand x)
  | _ => e
  end.
Fixpoint fma_expand_tree (t : tree) : tree :=
  match t with
  | Leaf p o => Leaf (map fma_expand p) (map fma_expand o)
  | Br c a b => Br (fma_expand c) (fma_expand_tree a) (fma_expand_tree b)
  | Abort w => Abort w
  end.
Lemma fma_expand_sound env : forall e, evalR env (fma_expand e) = evalR env e /\ evalRB env (fma_expand e) = evalRB env e.
Proof.
  induction e; simpl; try (split; reflexivity);
  repeat match goal with H : _ /\ _ |- _ => destruct H end;
  repeat match goal with H : evalR _ (fma_expand _) = _ |- _ => rewrite H; clear H | H : evalRB _ (fma_expand _) = _ |- _ => rewrite H; clear H end;
  split; reflexivity.
Qed.
