(* Cat.v -- catalogue access helpers, entry-name construction, small list utilities and the
   fixed tactics used on regenerated terms. *)
Require Import ZArith List String Bool Reals Lia.
Import ListNotations.
From GLMV Require Import Expr SemR SemZ.
Local Open Scope Z_scope.

Definition digit (z : Z) : string :=
  (match z with 0 => "0" | 1 => "1" | 2 => "2" | 3 => "3" | 4 => "4" | 5 => "5" | 6 => "6" | 7 => "7" | 8 => "8" | 9 => "9" | _ => "?" end)%string.
Fixpoint dims (ds : list Z) : string := match ds with [] => ""%string | d :: r => ("_" ++ digit d ++ dims r)%string end.
Definition name (f : string) (ds : list Z) (ty : string) : string := (f ++ dims ds ++ "_" ++ ty)%string.

Definition zseq (n : Z) : list Z := map Z.of_nat (seq 0 (Z.to_nat n)).

Definition outs_of (cat : list (string * tree)) (n : string) : option (list expr) :=
  match lookup n cat with Some (Leaf [] o) => Some o | _ => None end.
(* same, whatever assert() preconditions the entry recorded (the statement is then proved without using them) *)
Definition outs_any (cat : list (string * tree)) (n : string) : option (list expr) :=
  match lookup n cat with Some (Leaf _ o) => Some o | _ => None end.
Definition pre_of (cat : list (string * tree)) (n : string) : option (list expr) :=
  match lookup n cat with Some (Leaf p _) => Some p | _ => None end.
Definition tree_of (cat : list (string * tree)) (n : string) : option tree := lookup n cat.

(* sum_{k<n} f k, left-associated from 0 *)
Fixpoint zsum (n : nat) (f : Z -> Z) : Z := match n with O => 0 | S n' => zsum n' f + f (Z.of_nat n') end.
Fixpoint rsum (n : nat) (f : Z -> R) : R := match n with O => 0%R | S n' => (rsum n' f + f (Z.of_nat n'))%R end.

(* structure of a sum of products: an Add-tree of kind k with exactly n leaves, each a product of two inputs *)
Fixpoint add_leaves (k : kind) (e : expr) : list expr :=
  match e with
  | B Add k' x y => if kind_eqb k k' then add_leaves k x ++ add_leaves k y else [e]
  | _ => [e]
  end.
Definition is_prod2 (k : kind) (e : expr) : bool :=
  match e with B Mul k' (V k1 _ _) (V k2 _ _) => kind_eqb k k' && kind_eqb k k1 && kind_eqb k k2 | _ => false end.
Definition is_sop (k : kind) (n : Z) (e : expr) : bool :=
  let l := add_leaves k e in (Z.of_nat (List.length l) =? n) && forallb (is_prod2 k) l.

Lemma omap_ring k env : is_int k = true -> forall outs, forallb (ringfrag k) outs = true ->
  omap (evalZ false env) outs = Some (map (fun e => wrap k (evalZi env e)) outs).
Proof.
  intros Hk. induction outs as [|e outs IH]; simpl; intros H; [reflexivity|].
  apply andb_prop in H; destruct H as [H1 H2]. rewrite (evalZ_ring k env e Hk H1). simpl. rewrite IH by assumption. reflexivity.
Qed.

(* fixed tactics for goals of the form  list = list  whose elements are ring identities *)
Ltac list_ring := repeat (match goal with |- cons _ _ = cons _ _ => apply f_equal2; [ ring | ] | |- nil = nil => reflexivity end).
Ltac list_field := repeat (match goal with |- cons _ _ = cons _ _ => apply f_equal2; [ field | ] | |- nil = nil => reflexivity end).
Ltac list_refl := repeat (match goal with |- cons _ _ = cons _ _ => apply f_equal2; [ reflexivity | ] | |- nil = nil => reflexivity end).

(* evaluate a closed specification (a list of expressions built from literal dimensions) once, by the VM *)
Ltac eval_spec t := let s := eval vm_compute in t in change t with s.
Ltac evR := cbv [map evalR evalRB binR unR cmpR cstR Z.leb Z.compare Z.mul Z.pow Z.pow_pos Pos.iter Pos.mul Z.opp].
Ltac evZ := cbv [map evalZi].
Lemma IZR0 : IZR 0 = 0%R. Proof. reflexivity. Qed.
