(* IntFn.v -- hand-written executable model of glm/detail/func_integer.inl (GLSL integer and bitfield functions),
   parametrised by the element type's width w (8/16/32/64) and signedness sg.  Values of type T are the integers of
   T's range; `norm` reinterprets a bit pattern as a value of T (C++ conversion to T).  Tied to the code by the
   correspondence check (tools/corr/impl_C05.cpp). *)
Require Import ZArith List Bool Lia.
Import ListNotations.
Local Open Scope Z_scope.

Definition umod (w z : Z) : Z := Z.land z (Z.ones w).                       (* bit pattern of z:  z mod 2^w  (umod_mod) *)
Definition norm (sg : bool) (w z : Z) : Z :=                                (* value of type T with the pattern of z *)
  let m := umod w z in if sg && (2 ^ (w - 1) <=? m) then m - 2 ^ w else m.
Lemma umod_mod w z : 0 <= w -> umod w z = z mod 2 ^ w.
Proof. intros H. apply Z.land_ones, H. Qed.
Lemma norm_mod sg w z : 0 <= w -> norm sg w z = (let m := z mod 2 ^ w in if sg && (2 ^ (w - 1) <=? m) then m - 2 ^ w else m).
Proof. intros H. unfold norm. now rewrite umod_mod. Qed.
Definition in_T (sg : bool) (w z : Z) : bool := if sg then (- 2 ^ (w - 1) <=? z) && (z <? 2 ^ (w - 1)) else (0 <=? z) && (z <? 2 ^ w).
Lemma norm_id sg w z : 0 < w -> in_T sg w z = true -> norm sg w z = z.
Proof.
  intros Hw H. rewrite norm_mod by lia. cbv zeta. unfold in_T in *.
  assert (P : 2 ^ w = 2 * 2 ^ (w - 1)) by (replace w with (Z.succ (w - 1)) at 1 by lia; apply Z.pow_succ_r; lia).
  assert (Q : 0 < 2 ^ (w - 1)) by (apply Z.pow_pos_nonneg; lia).
  destruct sg; cbn [andb] in *.
  - apply andb_true_iff in H as [H1 H2]. apply Z.leb_le in H1. apply Z.ltb_lt in H2.
    destruct (Z_lt_le_dec z 0).
    + replace (z mod 2 ^ w) with (z + 2 ^ w) by (apply Z.mod_unique with (-1); lia).
      replace (2 ^ (w - 1) <=? z + 2 ^ w) with true by (symmetry; apply Z.leb_le; lia). lia.
    + rewrite Z.mod_small by lia. replace (2 ^ (w - 1) <=? z) with false by (symmetry; apply Z.leb_gt; lia). reflexivity.
  - apply andb_true_iff in H as [H1 H2]. apply Z.leb_le in H1. apply Z.ltb_lt in H2. apply Z.mod_small; lia.
Qed.

(* shifts as the compiler implements them on T: << wraps, >> is arithmetic for signed T (Z's floor division) *)
Definition shl (sg : bool) (w x s : Z) : Z := norm sg w (x * 2 ^ s).
Definition shr (x s : Z) : Z := Z.shiftr x s.                                     (* = x / 2^s (floor), Z.shiftr_div_pow2 *)
Definition band (sg : bool) (w x y : Z) := norm sg w (Z.land x y).
Definition bor (sg : bool) (w x y : Z) := norm sg w (Z.lor x y).
Definition bnot (sg : bool) (w x : Z) := norm sg w (Z.lnot x).

(* detail::mask<T>(Bits): Bits >= 8*sizeof(T) ? ~T(0) : (T(1) << Bits) - T(1)   -- Bits is itself a T *)
Definition mask_T (sg : bool) (w bits : Z) : Z := if w <=? bits then norm sg w (-1) else norm sg w (2 ^ bits - 1).
(* detail::mask(int Bits): the call bitfieldExtract made before fix 'bitfieldExtract computed its mask in int' (kept for the record of that finding) *)
Definition mask_int (bits : Z) : Z := if 32 <=? bits then -1 else norm true 32 (2 ^ bits - 1).

(* the constants 0x5555..., 0x3333..., ... converted to T *)
Definition cst (sg : bool) (w : Z) (c : Z) : Z := norm sg w c.
Definition ladder : list (Z * Z * Z) :=   (* (mask, shift, minimum width) *)
  [(6148914691236517205, 1, 2); (3689348814741910323, 2, 4); (1085102592571150095, 4, 8); (71777214294589695, 8, 16); (281470681808895, 16, 32); (4294967295, 32, 64)].

(* bitfieldReverse: (v & Mask) << Shift | (v & ~Mask) >> Shift, for each step the width admits *)
Definition rev_step (sg : bool) (w : Z) (x : Z) (st : Z * Z * Z) : Z :=
  let '(m, s, minw) := st in
  if w <? minw then x else
  let mk := cst sg w m in
  bor sg w (shl sg w (band sg w x mk) s) (shr (band sg w x (bnot sg w mk)) s).
(* the ladder runs on the unsigned counterpart of T; the result is converted back to T *)
Definition bitfieldReverse (sg : bool) (w x : Z) : Z := norm sg w (fold_left (rev_step false w) ladder (umod w x)).

(* bitCount: on the unsigned pattern: (v & Mask) + ((v >> Shift) & Mask) *)
Definition cnt_step (w : Z) (x : Z) (st : Z * Z * Z) : Z :=
  let '(m, s, minw) := st in
  if w <? minw then x else let mk := umod w m in umod w (Z.land x mk + Z.land (shr x s) mk).
Definition bitCount (sg : bool) (w x : Z) : Z := norm true 32 (fold_left (cnt_step w) ladder (umod w x)).
(* findLSB: Value == 0 ? -1 : bitCount(~Value & (Value - 1)) *)
Definition findLSB (sg : bool) (w x : Z) : Z :=
  if x =? 0 then -1 else bitCount sg w (band sg w (bnot sg w x) (norm sg w (x - 1))).
(* findMSB: smear x |= x >> 1, 2, 4, ... (on T: arithmetic shift for signed), then  w - 1 - bitCount(~x) *)
Definition msb_step (sg : bool) (w : Z) (x : Z) (st : Z * Z) : Z := let '(s, minw) := st in if w <? minw then x else bor sg w x (shr x s).
Definition findMSB (sg : bool) (w x : Z) : Z :=
  let x := if sg then norm sg w (Z.lxor x (shr x (w - 1))) else x in     (* signed: complement negative inputs *)
  let y := fold_left (msb_step sg w) [(1, 8); (2, 8); (4, 8); (8, 16); (16, 32); (32, 64)] x in
  w - 1 - bitCount sg w (bnot sg w y).

(* bitfieldExtract: (Value >> T(Offset)) & T(mask(UT(Bits))), UT the unsigned counterpart of T      bitfieldInsert: UT Mask = UT(mask(UT(Bits))) << Offset;  (UT(Base) & ~Mask) | ((UT(Insert) << Offset) & Mask) *)
Definition bitfieldExtract (sg : bool) (w v off bits : Z) : Z := band sg w (shr v off) (norm sg w (mask_T false w bits)).
Definition bitfieldInsert (sg : bool) (w base ins off bits : Z) : Z :=   (* on the unsigned counterpart UT of T, converted back to T at the end *)
  let mk := shl false w (mask_T false w bits) off in
  norm sg w (bor false w (band false w (umod w base) (bnot false w mk)) (band false w (shl false w (umod w ins) off) mk)).

(* 32-bit carry / borrow / extended multiplication *)
Definition uaddCarry (x y : Z) : Z * Z := let v := x + y in (v mod 2 ^ 32, if 2 ^ 32 - 1 <? v then 1 else 0).          (* (result, carry) *)
Definition usubBorrow (x y : Z) : Z * Z :=
  ((if x <=? y then y - x else (2 ^ 32 + (y - x)) mod 2 ^ 32), if y <=? x then 0 else 1).                               (* (result, borrow) *)
Definition umulExtended (x y : Z) : Z * Z := let v := x * y in (v / 2 ^ 32, v mod 2 ^ 32).                               (* (msb, lsb) *)
Definition imulExtended (x y : Z) : Z * Z := let v := x * y in (norm true 32 (v / 2 ^ 32), norm true 32 v).

(* ---- specification: the GLSL definitions quoted in glm/integer.hpp ---- *)
Fixpoint bits_upto (n : nat) : list Z := match n with O => [] | S k => bits_upto k ++ [Z.of_nat k] end.
Definition popcount (w x : Z) : Z := fold_left (fun acc i => acc + (if Z.testbit (umod w x) i then 1 else 0)) (bits_upto (Z.to_nat w)) 0.
Definition lowest_set (w x : Z) : Z := fold_right (fun i acc => if Z.testbit (umod w x) i then i else acc) (-1) (bits_upto (Z.to_nat w)).
Definition highest_set (w p : Z) : Z := fold_left (fun acc i => if Z.testbit p i then i else acc) (bits_upto (Z.to_nat w)) (-1).
(* findMSB: for non-negative values the highest 1 bit, for negative values the highest 0 bit; -1 for 0 and -1 *)
Definition findMSB_spec (sg : bool) (w x : Z) : Z := if sg && (x <? 0) then highest_set w (umod w (Z.lnot x)) else highest_set w (umod w x).
Definition reverse_spec (sg : bool) (w x : Z) : Z :=
  norm sg w (fold_left (fun acc i => acc + (if Z.testbit (umod w x) i then 2 ^ (w - 1 - i) else 0)) (bits_upto (Z.to_nat w)) 0).
(* extract bits [off, off+bits-1]; zero extension for unsigned, sign extension from the field's top bit for signed *)
Definition extract_spec (sg : bool) (w v off bits : Z) : Z :=
  let f := (umod w v / 2 ^ off) mod 2 ^ bits in
  if sg && (0 <? bits) && (2 ^ (bits - 1) <=? f) then f - 2 ^ bits else f.
Definition insert_spec (sg : bool) (w base ins off bits : Z) : Z :=
  let b := umod w base in norm sg w (b - ((b / 2 ^ off) mod 2 ^ bits) * 2 ^ off + (umod w ins mod 2 ^ bits) * 2 ^ off).
