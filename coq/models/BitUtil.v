(* BitUtil.v -- hand-written executable model of the power-of-two / multiple / bitfield utilities:
     glm/ext/scalar_integer.inl, glm/ext/vector_integer.inl (per component), glm/gtc/round.inl,
     glm/gtc/bitfield.inl (mask, rotate, fill; the interleave ladders are TRANSLATED, see tools/trace/gen_C18.py),
     glm/gtx/integer.inl (pow, sqrt, factorial, mod, nlz), glm/gtx/bit.inl.
   An element type T is (sg, w): signedness and width 8/16/32/64.  Values of T are integers in T's range.
   C++ arithmetic on a type narrower than int happens in int (exactly, no overflow is possible here); on 32/64-bit
   types it wraps (for signed T that is what the compiled code does; formally it is undefined -- property C20).
   `ar` is the value of an arithmetic expression of the promoted type, `cT` the conversion back to T on assignment.
   Tied to the code by the correspondence check (tools/corr/impl_C18.cpp). *)
Require Import ZArith List Bool Lia.
From GLMM Require Import IntFn.
Import ListNotations.
Local Open Scope Z_scope.

Section T.
Variables (sg : bool) (w : Z).
Definition cT (z : Z) : Z := norm sg w z.
Definition ar (z : Z) : Z := if w <? 32 then z else norm sg w z.
Definition absT (x : Z) : Z := if sg then cT (if 0 <=? x then x else ar (- x)) else x.          (* glm::abs, returns T *)
Definition signT (x : Z) : Z := if x <? 0 then -1 else if x =? 0 then 0 else 1.

(* ---- ext/scalar_integer.inl *)
(* isPowerOfTwo:  Result = abs(Value);  !(Result & (Result - 1)) *)
Definition isPowerOfTwo (x : Z) : bool := let r := absT x in Z.land r (ar (r - 1)) =? 0.
(* the vector overload (ext/vector_integer.inl) computes Result - 1 in T, not in int: it differs at the most negative value of int8/int16 *)
Definition isPowerOfTwoV (x : Z) : bool := let r := absT x in cT (Z.land r (cT (r - 1))) =? 0.

(* compute_ceilPowerOfTwo: vec<1,T> arithmetic, every operation yields a T *)
Definition smear (v s minw : Z) : Z := if w <? minw then v else cT (Z.lor v (Z.shiftr v s)).
Definition ceil_ladder (v : Z) : Z :=
  let v := cT (v - 1) in
  let v := smear v 1 8 in let v := smear v 2 8 in let v := smear v 4 8 in
  let v := smear v 8 16 in let v := smear v 16 32 in let v := smear v 32 64 in
  cT (v + 1).
Definition ceilPowerOfTwo (x : Z) : Z := if sg then cT (ceil_ladder (absT x) * signT x) else ceil_ladder x.
(* prevPowerOfTwo / floorPowerOfTwo:  isPowerOfTwo(v) ? v : T(1) << findMSB(v) *)
Definition floorPowerOfTwo (x : Z) : Z := if isPowerOfTwo x then x else cT (2 ^ findMSB sg w x).
(* roundPowerOfTwo *)
Definition roundPowerOfTwo (x : Z) : Z :=
  if isPowerOfTwo x then x else
  let prev := cT (2 ^ findMSB sg w x) in let next := cT (prev * 2) in
  if ar (next - x) <? ar (x - prev) then next else prev.

(* ceilMultiple / nextMultiple, integer *)
Definition ceilMultiple (s m : Z) : Z :=
  if sg then
    if 0 <? s then let tmp := cT (s - 1) in cT (tmp + (m - Z.rem tmp m))
    else cT (s + Z.rem (ar (- s)) m)
  else let r := Z.rem s m in if r =? 0 then s else cT (s + (m - r)).                  (* unsigned, after fix *)
Definition floorMultiple (s m : Z) : Z :=
  if 0 <=? s then cT (s - Z.rem s m) else let tmp := cT (s + 1) in cT (tmp - Z.rem tmp m - m).
Definition roundMultiple (s m : Z) : Z := floorMultiple s m.                           (* gtc/round.inl: the same text *)
Definition isMultiple (x m : Z) : bool := cT (Z.rem x m) =? 0.

(* findNSB: binary search over popcounts (key is the unsigned pattern of x) *)
Fixpoint nsb_loop (sts : list Z) (key n pos : Z) : Z :=
  match sts with
  | [] => if key <=? 1 then pos else -2                                                  (* -2: the real loop would not terminate *)
  | st :: r =>
      if key <=? 1 then pos else
      let cur := Z.land key (2 ^ st - 1) in
      let c := bitCount false w cur in
      if c <? n then nsb_loop r (Z.shiftr key st) (n - c) (pos + st) else nsb_loop r cur n pos
  end.
Definition nsb_steps : list Z := filter (fun s => s <? w) [32; 16; 8; 4; 2; 1; 0].
Definition findNSB (x n : Z) : Z := if bitCount sg w x <? n then -1 else nsb_loop nsb_steps (umod w x) n 0.

(* ---- gtc/bitfield.inl *)
Definition mask (bits : Z) : Z := mask_T sg w bits.
(* bitfieldRotateRight:  (In << Shift) | (In >> (BitSize - Shift))   -- sic: the text of "Right" shifts left first *)
Definition bitfieldRotateRight (x s : Z) : Z := cT (Z.lor (ar (x * 2 ^ s)) (Z.shiftr x (w - s))).
Definition bitfieldRotateLeft (x s : Z) : Z := cT (Z.lor (Z.shiftr x s) (ar (x * 2 ^ (w - s)))).
(* bitfieldFillOne:  Value | T(mask(BitCount) << FirstBit)      mask here is mask<int> *)
Definition int_mask_shl (first count : Z) : Z := norm true 32 (mask_T true 32 count * 2 ^ first).
Definition bitfieldFillOne (v first count : Z) : Z := cT (Z.lor v (cT (int_mask_shl first count))).
Definition bitfieldFillZero (v first count : Z) : Z := cT (Z.land v (cT (Z.lnot (int_mask_shl first count)))).

(* ---- gtx/bit.inl *)
Definition lowestBitValue (x : Z) : Z := cT (Z.land x (ar (ar (Z.lnot x) + 1))).
Fixpoint hbv_loop (fuel : nat) (tmp result : Z) : Z :=
  match fuel with O => -2 | S k =>
    if tmp =? 0 then result else
    let r := cT (Z.land tmp (ar (ar (Z.lnot tmp) + 1))) in hbv_loop k (cT (Z.land tmp (ar (Z.lnot r)))) r end.
Definition highestBitValue (x : Z) : Z := hbv_loop 65 x 0.
Definition powerOfTwoAbove (x : Z) : Z := if isPowerOfTwo x then x else cT (highestBitValue x * 2).
Definition powerOfTwoBelow (x : Z) : Z := if isPowerOfTwo x then x else highestBitValue x.
Definition powerOfTwoNearest (x : Z) : Z :=
  if isPowerOfTwo x then x else
  let prev := highestBitValue x in let next := cT (prev * 2) in
  if ar (next - x) <? ar (x - prev) then next else prev.
End T.

(* floating ceilMultiple / floorMultiple / roundMultiple on a dyadic grid: Source = s * 2^-e, Multiple = m * 2^-e with
   |s|, |m| < 2^22 (float) so that fmod, +, - are all exact; the functions then act on the integers s, m. *)
Definition f_ceilMultiple (s m : Z) : Z :=
  if 0 <? s then let r := Z.rem s m in if 0 <? r then s + (m - r) else s else s + Z.rem (- s) m.        (* after fix *)
Definition f_floorMultiple (s m : Z) : Z :=
  if 0 <=? s then s - Z.rem s m else let r := Z.rem s m in if r <? 0 then s - r - m else s.             (* after fix *)
Definition f_roundMultiple (s m one : Z) : Z :=                                                         (* `one` = 2^e *)
  if 0 <=? s then s - Z.rem s m else let tmp := s + one in tmp - Z.rem tmp m - m.

(* ---- gtx/integer.inl (int / uint, 32-bit) *)
Definition pow_int (x y : Z) : Z := if y =? 0 then (if 0 <=? x then 1 else -1) else norm true 32 (x ^ y).
Definition pow_uint (x y : Z) : Z := if y =? 0 then 1 else norm false 32 (x ^ y).
Fixpoint sqrt_loop (fuel : nat) (sg : bool) (x next : Z) : Z :=
  match fuel with O => -2 | S k =>
    let cur := next in
    let next := Z.shiftr (norm sg 32 (cur + Z.quot x cur)) 1 in
    if next <? cur then sqrt_loop k sg x next else cur end.
Definition sqrt_int (x : Z) : Z := if x <=? 1 then x else sqrt_loop 64 true x (Z.shiftr x 1).
Definition sqrt_uint (x : Z) : Z := if x <=? 1 then x else sqrt_loop 64 false x (Z.shiftr x 1).
Definition mod_int (x y : Z) : Z := Z.rem (norm true 32 (Z.rem x y + y)) y.
Definition mod_uint (x y : Z) : Z := norm false 32 (x - y * (x / y)).
Fixpoint fact_loop (fuel : nat) (sg : bool) (w temp result : Z) : Z :=
  match fuel with O => -2 | S k => if 1 <? temp then fact_loop k sg w (temp - 1) (norm sg w (result * temp)) else result end.
Definition factorial (sg : bool) (w x : Z) : Z := fact_loop 200 sg w x 1.
Definition nlz (x : Z) : Z := norm false 32 (31 - findMSB false 32 x).

(* ---- specifications *)
Definition is_pow2 (x : Z) : bool := (0 <? x) && (2 ^ Z.log2 x =? x).
Definition ceil_pow2 (x : Z) : Z := 2 ^ Z.log2_up x.            (* x >= 1: the smallest power of two >= x *)
Definition floor_pow2 (x : Z) : Z := 2 ^ Z.log2 x.              (* x >= 1: the largest power of two <= x *)
Definition ceil_mult (s m : Z) : Z := s + (- s) mod m.          (* m > 0: the smallest multiple of m that is >= s *)
Definition floor_mult (s m : Z) : Z := s - s mod m.             (* m > 0: the largest multiple of m that is <= s *)
(* position of the n-th (1-based) set bit of the pattern p, -1 if there are fewer than n *)
Fixpoint nth_set (fuel : nat) (p n pos : Z) : Z :=
  match fuel with O => -1 | S k => if Z.odd p then (if n =? 1 then pos else nth_set k (Z.shiftr p 1) (n - 1) (pos + 1)) else nth_set k (Z.shiftr p 1) n (pos + 1) end.
Definition findNSB_spec (w x n : Z) : Z := nth_set (Z.to_nat w) (umod w x) n 0.
Definition rotr_spec (w p s : Z) : Z := (p / 2 ^ s + (p mod 2 ^ s) * 2 ^ (w - s)) mod 2 ^ w.
Definition rotl_spec (w p s : Z) : Z := ((p * 2 ^ s) mod 2 ^ w + p / 2 ^ (w - s)) mod 2 ^ w.
Definition field (first count : Z) : Z := (2 ^ count - 1) * 2 ^ first.     (* bits first .. first+count-1 *)
