(* Pack.v -- hand-written executable model of the pack/unpack functions of glm/detail/func_packing.inl and
   glm/gtc/packing.inl on bit patterns.  binary32 arithmetic is the standard library's executable IEEE-754 specification
   (Coq.Floats.SpecFloat, prec = 24, emax = 128: SFmul, SFdiv, SFltb, binary_normalize); a float is exchanged as its
   32-bit pattern.
   - normalised formats: every field is  round(clamp(v, lo, hi) * SCALE)  narrowed to the field, and decodes as
     float(code) * K  (clamped to [-1, 1] for signed fields); SCALE and K are the constants of the source text.
   - integer formats (packInt*, packUint*, packI3x10_1x2, packU3x10_1x2, packDouble2x32): bit concatenation.
   - small floats (packF2x11_1x10): the integer bit manipulation of float2packed11/10, packed11/10ToFloat.
   Not modelled: packF3x9_E1x5 (log2/pow of libm), packRGBM, double-precision packUnorm/packSnorm templates (oracle only).
   Half formats are GLMM.Half (property C07).   Tied to the code by the correspondence check (tools/corr/impl_C06.cpp). *)
Require Import ZArith List Bool Lia.
Require Import Floats.SpecFloat.
From GLMM Require Import IntFn.
Import ListNotations.
Local Open Scope Z_scope.

(* ---- binary32 *)
Definition prec : Z := 24.
Definition emax : Z := 128.
Definition f32 := spec_float.
Definition of_bits (p : Z) : f32 :=
  let s := 2147483648 <=? p in let e := (p / 8388608) mod 256 in let m := p mod 8388608 in
  if e =? 255 then (if m =? 0 then S754_infinity s else S754_nan)
  else if e =? 0 then (match m with Zpos q => S754_finite s q (-149) | _ => S754_zero s end)
  else match m + 8388608 with Zpos q => S754_finite s q (e - 150) | _ => S754_nan end.
Definition sgnb (s : bool) : Z := if s then 2147483648 else 0.
Definition to_bits (x : f32) : Z :=
  match x with
  | S754_zero s => sgnb s | S754_infinity s => sgnb s + 2139095040 | S754_nan => 2143289344
  | S754_finite s m e => if Zpos m <? 8388608 then sgnb s + Zpos m else sgnb s + (e + 150) * 8388608 + (Zpos m - 8388608)
  end.
Definition of_int (z : Z) : f32 := binary_normalize prec emax z 0 false.          (* static_cast<float>(int): exact below 2^24 *)
Definition fmul : f32 -> f32 -> f32 := SFmul prec emax.
Definition fdiv : f32 -> f32 -> f32 := SFdiv prec emax.
Definition flt : f32 -> f32 -> bool := SFltb.
(* glm::max(x, y) = (x < y) ? y : x;  glm::min(x, y) = (y < x) ? y : x;  clamp = min(max(x, lo), hi) *)
Definition fmax (x y : f32) : f32 := if flt x y then y else x.
Definition fmin (x y : f32) : f32 := if flt y x then y else x.
Definition fclamp (x lo hi : f32) : f32 := fmin (fmax x lo) hi.
(* std::round (half away from zero) followed by the conversion to an integer type *)
Definition round_away (x : f32) : Z :=
  match x with
  | S754_finite s m e => let n := if 0 <=? e then Zpos m * 2 ^ e else (Zpos m + 2 ^ (- e - 1)) / 2 ^ (- e) in if s then - n else n
  | _ => 0
  end.
Definition f0 : f32 := S754_zero false.
Definition f1 : f32 := of_int 1.
Definition fm1 : f32 := of_int (-1).

(* ---- one normalised field *)
Record field := { signed : bool; bits : Z; scale : f32; kdec : f32 }.
(* encode a float as the field's code (an unsigned pattern of `bits` bits) *)
Definition enc (F : field) (x : f32) : Z :=
  umod (bits F) (round_away (fmul (fclamp x (if signed F then fm1 else f0) f1) (scale F))).
(* decode a code *)
Definition dec (F : field) (c : Z) : f32 :=
  if signed F then fclamp (fmul (of_int (norm true (bits F) c)) (kdec F)) fm1 f1 else fmul (of_int c) (kdec F).

Definition lit (bits : Z) : f32 := of_bits bits.
Definition inv (n : Z) : f32 := fdiv f1 (of_int n).                                 (* 1.f / n.f *)
Definition U (b n : Z) (k : f32) : field := {| signed := false; bits := b; scale := of_int n; kdec := k |}.
Definition S (b n : Z) (k : f32) : field := {| signed := true; bits := b; scale := of_int n; kdec := k |}.
(* constants of the source text, as the float they denote *)
Definition k255 : f32 := lit 998277249.        (* 0.0039215686274509803921568627451f *)
Definition k65535 : f32 := lit 931135616.      (* 1.5259021896696421759365224689097e-5f *)
Definition k32767 : f32 := lit 939524352.      (* 3.0518509475997192297128208258309e-5f *)
Definition k127 : f32 := lit 1006699012.       (* 0.0078740157480315f and 0.00787401574803149606299212598425f: the same float *)

(* ---- formats: fields from the least significant bits upwards (the first vector component first) *)
Definition fmt_unorm2x16 := [U 16 65535 k65535; U 16 65535 k65535].
Definition fmt_snorm2x16 := [S 16 32767 k32767; S 16 32767 k32767].
Definition fmt_unorm4x8 := [U 8 255 k255; U 8 255 k255; U 8 255 k255; U 8 255 k255].
Definition fmt_snorm4x8 := [S 8 127 k127; S 8 127 k127; S 8 127 k127; S 8 127 k127].
Definition fmt_unorm1x8 := [U 8 255 k255].
Definition fmt_unorm2x8 := [U 8 255 k255; U 8 255 k255].
Definition fmt_snorm1x8 := [S 8 127 k127].
Definition fmt_snorm2x8 := [S 8 127 k127; S 8 127 k127].
Definition fmt_unorm1x16 := [U 16 65535 k65535].
Definition fmt_unorm4x16 := [U 16 65535 k65535; U 16 65535 k65535; U 16 65535 k65535; U 16 65535 k65535].
Definition fmt_snorm1x16 := [S 16 32767 k32767].
Definition fmt_snorm4x16 := [S 16 32767 k32767; S 16 32767 k32767; S 16 32767 k32767; S 16 32767 k32767].
Definition fmt_snorm3x10_1x2 := [S 10 511 (inv 511); S 10 511 (inv 511); S 10 511 (inv 511); S 2 1 f1].
Definition fmt_unorm3x10_1x2 := [U 10 1023 (inv 1023); U 10 1023 (inv 1023); U 10 1023 (inv 1023); U 2 3 (inv 3)].
Definition fmt_unorm2x4 := [U 4 15 (inv 15); U 4 15 (inv 15)].
Definition fmt_unorm4x4 := [U 4 15 (inv 15); U 4 15 (inv 15); U 4 15 (inv 15); U 4 15 (inv 15)].
Definition fmt_unorm1x5_1x6_1x5 := [U 5 31 (inv 31); U 6 63 (inv 63); U 5 31 (inv 31)].
Definition fmt_unorm3x5_1x1 := [U 5 31 (inv 31); U 5 31 (inv 31); U 5 31 (inv 31); U 1 1 f1].
Definition fmt_unorm2x3_1x2 := [U 3 7 (inv 7); U 3 7 (inv 7); U 2 3 (inv 3)].
(* the generic templates packUnorm<uintN>(vecL<float>) / packSnorm<intN>: one field per component, decode constant 1 / max *)
Definition fmt_tunorm8 := [U 8 255 (inv 255)].
Definition fmt_tunorm16 := [U 16 65535 (inv 65535)].
Definition fmt_tsnorm8 := [S 8 127 (inv 127)].
Definition fmt_tsnorm16 := [S 16 32767 (inv 32767)].

Fixpoint pack_word (fs : list field) (xs : list Z) : Z :=       (* xs: float patterns *)
  match fs, xs with
  | F :: fs', x :: xs' => enc F (of_bits x) + 2 ^ bits F * pack_word fs' xs'
  | _, _ => 0
  end.
Fixpoint unpack_word (fs : list field) (p : Z) : list Z :=      (* float patterns *)
  match fs with
  | F :: fs' => to_bits (dec F (p mod 2 ^ bits F)) :: unpack_word fs' (p / 2 ^ bits F)
  | [] => []
  end.

(* ---- integer formats: bit concatenation of b-bit fields, first component lowest *)
Fixpoint pack_ints (bs : list Z) (xs : list Z) : Z :=
  match bs, xs with b :: bs', x :: xs' => umod b x + 2 ^ b * pack_ints bs' xs' | _, _ => 0 end.
Fixpoint unpack_ints (sg : bool) (bs : list Z) (p : Z) : list Z :=
  match bs with b :: bs' => norm sg b p :: unpack_ints sg bs' (p / 2 ^ b) | [] => [] end.

(* ---- packF2x11_1x10: the integer bit manipulation (uint32, wrapping) *)
Definition u32 (z : Z) : Z := umod 32 z.
Definition float2packed11 (f : Z) : Z := Z.lor (Z.land (Z.shiftr (u32 (Z.land f 2139095040 - 939524096)) 17) 1984) (Z.land (Z.shiftr f 17) 63).
Definition float2packed10 (f : Z) : Z := Z.lor (Z.land (Z.shiftr (u32 (Z.land f 2139095040 - 939524096)) 18) 992) (Z.land (Z.shiftr f 18) 31).
Definition packed11ToFloat (p : Z) : Z := Z.lor (Z.land (u32 (Z.shiftl (Z.land p 1984) 17 + 939524096)) 2139095040) (Z.shiftl (Z.land p 63) 17).
Definition packed10ToFloat (p : Z) : Z := Z.lor (Z.land (u32 (Z.shiftl (Z.land p 992) 18 + 939524096)) 2139095040) (Z.shiftl (Z.land p 31) 18).
Definition is_zero32 (f : Z) : bool := Z.land f 2147483647 =? 0.
Definition is_nan32 (f : Z) : bool := 2139095040 <? Z.land f 2147483647.
Definition is_inf32 (f : Z) : bool := Z.land f 2147483647 =? 2139095040.
Definition floatTo11bit (f : Z) : Z := if is_zero32 f then 0 else if is_nan32 f then 4294967295 else if is_inf32 f then 1984 else float2packed11 f.
Definition floatTo10bit (f : Z) : Z := if is_zero32 f then 0 else if is_nan32 f then 4294967295 else if is_inf32 f then 992 else float2packed10 f.
(* after fix: exponent field all ones decodes to Inf (mantissa 0) or the quiet NaN *)
Definition packed11bitToFloat (x : Z) : Z :=
  if x =? 0 then 0 else if Z.land x 1984 =? 1984 then (if Z.land x 63 =? 0 then 2139095040 else 2143289344) else packed11ToFloat x.
Definition packed10bitToFloat (x : Z) : Z :=
  if x =? 0 then 0 else if Z.land x 992 =? 992 then (if Z.land x 31 =? 0 then 2139095040 else 2143289344) else packed10ToFloat x.
Definition packF2x11_1x10 (x y z : Z) : Z :=
  Z.lor (Z.lor (Z.land (floatTo11bit x) 2047) (Z.shiftl (Z.land (floatTo11bit y) 2047) 11)) (Z.shiftl (Z.land (floatTo10bit z) 1023) 22).
Definition unpackF2x11_1x10 (v : Z) : list Z :=
  [packed11bitToFloat (Z.land v 2047); packed11bitToFloat (Z.land (Z.shiftr v 11) 2047); packed10bitToFloat (Z.land (Z.shiftr v 22) 1023)].
