(* Half.v -- hand-written executable model of glm/detail/type_half.inl (toFloat32, toFloat16) on bit patterns,
   and the IEEE-754 value functions it is specified against.  Tied to the code by the correspondence check
   (tools/corr): the extracted model and glm::detail::toFloat16/toFloat32 are run on the same patterns. *)
Require Import ZArith List Bool Lia.
Import ListNotations.
Local Open Scope Z_scope.

(* ---- model ---- *)
Fixpoint renorm (fuel : nat) (m e : Z) : Z * Z :=
  match fuel with
  | O => (m, e)
  | S f => if (m / 1024) mod 2 =? 1 then (m, e) else renorm f (2 * m) (e - 1)
  end.
(* half pattern (0 <= h < 2^16) -> float pattern *)
Definition toFloat32 (h : Z) : Z :=
  let s := (h / 2 ^ 15) mod 2 in let e := (h / 2 ^ 10) mod 32 in let m := h mod 1024 in
  if e =? 0 then
    if m =? 0 then s * 2 ^ 31
    else let '(m', e') := renorm 11 m e in s * 2 ^ 31 + (e' + 1 + 112) * 2 ^ 23 + (m' - 1024) * 2 ^ 13
  else if e =? 31 then
    if m =? 0 then s * 2 ^ 31 + 2139095040 else s * 2 ^ 31 + 2139095040 + m * 2 ^ 13
  else s * 2 ^ 31 + (e + 112) * 2 ^ 23 + m * 2 ^ 13.

(* float fields (sign s in {0,1}, biased exponent E in [0,256), fraction m in [0,2^23)) -> half pattern *)
Definition toFloat16_fields (s E m : Z) : Z :=
  let sh := s * 2 ^ 15 in let e := E - 112 in
  if e <=? 0 then
    if e <? -10 then sh
    else let m1 := (m + 2 ^ 23) / 2 ^ (1 - e) in
         let m2 := if (m1 / 4096) mod 2 =? 1 then m1 + 8192 else m1 in
         sh + m2 / 8192
  else if e =? 143 then
    if m =? 0 then sh + 31744
    else let mm := m / 8192 in sh + 31744 + mm + (if mm =? 0 then 1 else 0)
  else
    let '(m2, e2) := if (m / 4096) mod 2 =? 1 then (let m' := m + 8192 in if (m' / 2 ^ 23) mod 2 =? 1 then (0, e + 1) else (m', e)) else (m, e) in
    if 30 <? e2 then sh + 31744 else sh + e2 * 1024 + m2 / 8192.
Definition toFloat16 (a : Z) : Z := toFloat16_fields ((a / 2 ^ 31) mod 2) ((a / 2 ^ 23) mod 256) (a mod 2 ^ 23).

(* ---- IEEE-754 value functions (specification) ---- *)
(* magnitude of a finite binary16 code c (0 <= c <= 0x7c00; 0x7c00 read as the next power 2^16) in units of 2^-24 *)
Definition V16 (c : Z) : Z := if c <? 1024 then c else (1024 + c mod 1024) * 2 ^ (c / 1024 - 1).
(* magnitude of a finite binary32 with fields E, m in units of 2^-149 *)
Definition V32 (E m : Z) : Z := if E =? 0 then m else (2 ^ 23 + m) * 2 ^ (E - 1).
Definition V32p (a : Z) : Z := V32 ((a / 2 ^ 23) mod 256) (a mod 2 ^ 23).   (* magnitude of a float pattern *)
(* 2^-24 = 2^125 * 2^-149 *)
Definition U := 2 ^ 125.
Definition is_nan32 (a : Z) := ((a / 2 ^ 23) mod 256 =? 255) && negb (a mod 2 ^ 23 =? 0).
Definition is_inf32 (a : Z) := ((a / 2 ^ 23) mod 256 =? 255) && (a mod 2 ^ 23 =? 0).
Definition is_nan16 (h : Z) := ((h / 1024) mod 32 =? 31) && negb (h mod 1024 =? 0).
Definition is_inf16 (h : Z) := ((h / 1024) mod 32 =? 31) && (h mod 1024 =? 0).
Definition sign32 (a : Z) := (a / 2 ^ 31) mod 2.
Definition sign16 (h : Z) := (h / 2 ^ 15) mod 2.

(* dyadic values as (odd or zero mantissa, exponent) pairs: equal pairs <=> equal real values *)
Fixpoint strip2 (fuel : nat) (m e : Z) : Z * Z :=
  match fuel with O => (m, e) | S f => if (m =? 0) then (0, 0) else if Z.even m then strip2 f (m / 2) (e + 1) else (m, e) end.
Definition dy16 (c : Z) : Z * Z := if c <? 1024 then strip2 12 c (-24) else strip2 12 (1024 + c mod 1024) (c / 1024 - 1 - 24).
Definition dy32 (a : Z) : Z * Z := let E := (a / 2 ^ 23) mod 256 in let m := a mod 2 ^ 23 in if E =? 0 then strip2 25 m (-149) else strip2 25 (2 ^ 23 + m) (E - 1 - 149).
Definition dy_eqb (p q : Z * Z) : bool := (fst p =? fst q) && (snd p =? snd q).

(* all 16-bit patterns *)
Fixpoint zrange (n : nat) (z : Z) : list Z := match n with O => [] | S k => z :: zrange k (z + 1) end.
Definition all16 : list Z := zrange (Z.to_nat 65536) 0.

(* ---- the pack/unpack wrappers that use the conversions (first component in the least significant bits) ---- *)
Definition packHalf2x16 (a b : Z) : Z := toFloat16 a + 2 ^ 16 * toFloat16 b.
Definition unpackHalf2x16 (p : Z) : list Z := [toFloat32 (p mod 2 ^ 16); toFloat32 ((p / 2 ^ 16) mod 2 ^ 16)].
Definition packHalf4x16 (a b c d : Z) : Z := toFloat16 a + 2 ^ 16 * toFloat16 b + 2 ^ 32 * toFloat16 c + 2 ^ 48 * toFloat16 d.
Definition unpackHalf4x16 (p : Z) : list Z := map (fun i => toFloat32 ((p / 2 ^ (16 * i)) mod 2 ^ 16)) [0; 1; 2; 3].
Definition packHalfL (l : list Z) : list Z := map toFloat16 l.
Definition unpackHalfL (l : list Z) : list Z := map toFloat32 l.
