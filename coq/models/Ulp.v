(* Ulp.v -- hand-written executable model of ULP stepping and ULP comparison on IEEE-754 bit patterns:
     glm/ext/scalar_ulp.inl (nextFloat, prevFloat, n-step overloads, floatDistance; the bundled nextafter/nextafterf),
     glm/ext/scalar_relational.inl / vector_relational.inl / matrix_relational.inl (equal / notEqual with MaxULPs),
     glm/detail/type_float.hpp (float_t: i, negative()).
   A format is (mb, w): mantissa bits and total width -- (23, 32) for float, (52, 64) for double.  A value is its bit
   pattern p in [0, 2^w).  `nextafter` is the IEEE-754 / C library function the code calls (std::nextafter); the bundled
   Sun implementation in scalar_ulp.inl is compared against the same model by the correspondence check.
   Tied to the code by the correspondence check (tools/corr/impl_C14.cpp). *)
Require Import ZArith List Bool Lia.
From GLMM Require Import IntFn.
Import ListNotations.
Local Open Scope Z_scope.

Section F.
Variables (mb w : Z).
Definition sbit : Z := 2 ^ (w - 1).
Definition mag (p : Z) : Z := p mod sbit.
Definition neg (p : Z) : bool := sbit <=? p.
Definition inf_mag : Z := (2 ^ (w - 1 - mb) - 1) * 2 ^ mb.          (* exponent field all ones, mantissa 0 *)
Definition is_nan (p : Z) : bool := inf_mag <? mag p.
Definition is_finite (p : Z) : bool := mag p <? inf_mag.
Definition max_finite : Z := inf_mag - 1.                            (* pattern of +max *)
(* the ordered integer line: sign-magnitude pattern -> rank; +0 and -0 coincide at 0 *)
Definition ord (p : Z) : Z := if neg p then - mag p else mag p.

(* IEEE nextafter(x, y) on patterns (NaN arguments: x is returned; never used on NaN) *)
Definition nextafter (x y : Z) : Z :=
  if is_nan x || is_nan y then x
  else if ord x =? ord y then y
  else if mag x =? 0 then (if neg y then sbit + 1 else 1)
  else if ord x <? ord y then (if neg x then x - 1 else x + 1)
  else (if neg x then x + 1 else x - 1).

Definition nextFloat (x : Z) : Z := nextafter x max_finite.
Definition prevFloat (x : Z) : Z := nextafter x (sbit + max_finite).                  (* after fix: towards -max *)
Fixpoint iter (n : nat) (f : Z -> Z) (x : Z) : Z := match n with O => x | S k => iter k f (f x) end.
Definition nextFloatN (x n : Z) : Z := iter (Z.to_nat n) nextFloat x.
Definition prevFloatN (x n : Z) : Z := iter (Z.to_nat n) prevFloat x.

(* float_t<T>::i : the pattern read as a signed integer *)
Definition fi (p : Z) : Z := norm true w p.
(* floatDistance (after fix): ordered integers, abs of the difference, in int_type arithmetic (wrapping) *)
Definition lineT (i : Z) : Z := if i <? 0 then norm true w (- 2 ^ (w - 1) - i) else i.
Definition floatDistance (x y : Z) : Z := norm true w (Z.abs (norm true w (lineT (fi x) - lineT (fi y)))).
(* equal(x, y, MaxULPs); MaxULPs is an int.
   scalar overload (scalar_relational.inl): "different signs means they do not match" -- the test-suite pins equal(-0, +0) = false.
   vector / matrix overloads (vector_relational.inl, after fix): across zero the distance is |a| + |b| *)
Definition same_sign_ulps (x y n : Z) : bool := norm true w (Z.abs (norm true w (fi x - fi y))) <=? n.
Definition equalULP_scalar (x y n : Z) : bool := if negb (Bool.eqb (neg x) (neg y)) then false else same_sign_ulps x y n.
Definition equalULP_vec (x y n : Z) : bool :=
  if negb (Bool.eqb (neg x) (neg y)) then (0 <=? n) && (umod w (mag x + mag y) <=? n) else same_sign_ulps x y n.

(* ---- specification: the exact value of a finite pattern, scaled by 2^(bias + mb - 1) so that it is an integer *)
Definition Vmag (m : Z) : Z := let e := m / 2 ^ mb in let f := m mod 2 ^ mb in if e =? 0 then f else (2 ^ mb + f) * 2 ^ (e - 1).
Definition V (p : Z) : Z := if neg p then - Vmag (mag p) else Vmag (mag p).
End F.
