(* Common.v -- hand-written executable models of the common functions whose source converts a float to a concrete int
   (outside the tracer): glm::roundEven (detail/func_common.inl), glm::iround / glm::uround (ext/scalar_common.inl).
   A floating-point argument is exchanged as a bit pattern and read as the exact rational n / d it denotes.
   - roundEven is modelled with EXACT arithmetic on n / d: int(x), fract(x) = x - floor(x), round(x), the comparisons with 0.5
     and the +-1 steps are all exact for |x| < 2^31 (binary32) / 2^53 (binary64) because x - floor(x) and I +- 1 are
     representable; the correspondence check confirms this on every run.
   - iround / uround are static_cast<int>(round(x)) (after fix 49e3514; x + 0.5 before): exact as well.
   Tied to the code by the correspondence check (tools/corr/impl_C11.cpp). *)
Require Import ZArith List Bool Lia.
Require Import Floats.SpecFloat.
From GLMM Require Import IntFn Pack.
Import ListNotations.
Local Open Scope Z_scope.

(* the exact value n / d (d = 2^k > 0) of a finite binary32 / binary64 pattern: (mantissa bits, width) = (23, 32) / (52, 64) *)
Definition ratio_of_bits (mb w p : Z) : Z * Z :=
  let s := 2 ^ (w - 1) <=? p in let m := p mod 2 ^ mb in let e := (p / 2 ^ mb) mod 2 ^ (w - 1 - mb) in
  let bias := 2 ^ (w - 2 - mb) - 1 in
  let '(mm, ee) := if e =? 0 then (m, 1 - bias - mb) else (m + 2 ^ mb, e - bias - mb) in
  let mm := if s then - mm else mm in
  if 0 <=? ee then (mm * 2 ^ ee, 1) else (mm, 2 ^ (- ee)).

(* std::round: half away from zero *)
Definition round_away (n d : Z) : Z := if 0 <=? n then (2 * n + d) / (2 * d) else - ((2 * (- n) + d) / (2 * d)).
(* glm::roundEven as written:  Integer = int(x); FractionalPart = fract(x); if it is not 0.5: round(x); else if Integer is
   even: Integer; else if x <= 0: Integer - 1; else Integer + 1 *)
Definition roundEven (n d : Z) : Z :=
  let I := Z.quot n d in let r := n mod d in
  if negb (2 * r =? d) then round_away n d
  else if Z.even I then I else if n <=? 0 then I - 1 else I + 1.
(* specification: the nearest integer, the even one on a tie *)
Definition nearest_even (n d : Z) : Z :=
  let f := n / d in let r := n mod d in
  if 2 * r <? d then f else if d <? 2 * r then f + 1 else if Z.even f then f else f + 1.

(* iround / uround (after fix):  static_cast<int>(round(x))  for x >= 0: round is exact, and so is the conversion when
   the result is a value of the integer type *)
Definition iround (mb w p : Z) : Z := let '(n, d) := ratio_of_bits mb w p in round_away n d.
