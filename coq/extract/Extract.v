(* Extract.v -- extraction of the hand-written models to OCaml for the correspondence check (tools/corr).
   Only ExtrOcamlBasic is used: bool, option, unit, list, prod, sumbool are mapped to OCaml's; Z/positive/N/nat stay the
   extracted Coq datatypes; there is no Extract Constant. *)
Require Extraction.
Require Import ExtrOcamlBasic.
From GLMM Require Half IntFn BitUtil Ulp.
Extraction Language OCaml.
Extraction "models.ml" Half.toFloat32 Half.toFloat16 Half.packHalf2x16 Half.unpackHalf2x16 Half.packHalf4x16 Half.unpackHalf4x16 Half.packHalfL Half.unpackHalfL
  IntFn.norm IntFn.umod IntFn.bitfieldReverse IntFn.bitCount IntFn.findLSB IntFn.findMSB IntFn.bitfieldExtract IntFn.bitfieldInsert IntFn.uaddCarry IntFn.usubBorrow IntFn.umulExtended IntFn.imulExtended IntFn.mask_T
  BitUtil.isPowerOfTwo BitUtil.isPowerOfTwoV BitUtil.ceilPowerOfTwo BitUtil.floorPowerOfTwo BitUtil.roundPowerOfTwo BitUtil.ceilMultiple BitUtil.floorMultiple BitUtil.roundMultiple
  BitUtil.isMultiple BitUtil.findNSB BitUtil.mask BitUtil.bitfieldRotateRight BitUtil.bitfieldRotateLeft BitUtil.bitfieldFillOne BitUtil.bitfieldFillZero
  BitUtil.lowestBitValue BitUtil.highestBitValue BitUtil.powerOfTwoAbove BitUtil.powerOfTwoBelow BitUtil.powerOfTwoNearest
  BitUtil.f_ceilMultiple BitUtil.f_floorMultiple BitUtil.f_roundMultiple BitUtil.pow_int BitUtil.pow_uint BitUtil.sqrt_int BitUtil.sqrt_uint BitUtil.mod_int BitUtil.mod_uint
  BitUtil.factorial BitUtil.nlz
  Ulp.nextafter Ulp.nextFloat Ulp.prevFloat Ulp.nextFloatN Ulp.prevFloatN Ulp.floatDistance Ulp.equalULP_scalar Ulp.equalULP_vec.
