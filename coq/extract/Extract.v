(* Extract.v -- extraction of the hand-written models to OCaml for the correspondence check (tools/corr).
   Only ExtrOcamlBasic is used: bool, option, unit, list, prod, sumbool are mapped to OCaml's; Z/positive/N/nat stay the
   extracted Coq datatypes; there is no Extract Constant. *)
Require Extraction.
Require Import ExtrOcamlBasic.
From GLMM Require Half IntFn BitUtil Ulp Pack Common.
Extraction Language OCaml.
Extraction "models.ml" Half.toFloat32 Half.toFloat16 Half.packHalf2x16 Half.unpackHalf2x16 Half.packHalf4x16 Half.unpackHalf4x16 Half.packHalfL Half.unpackHalfL
  IntFn.norm IntFn.umod IntFn.bitfieldReverse IntFn.bitCount IntFn.findLSB IntFn.findMSB IntFn.bitfieldExtract IntFn.bitfieldInsert IntFn.uaddCarry IntFn.usubBorrow IntFn.umulExtended IntFn.imulExtended IntFn.mask_T
  BitUtil.isPowerOfTwo BitUtil.isPowerOfTwoV BitUtil.ceilPowerOfTwo BitUtil.floorPowerOfTwo BitUtil.roundPowerOfTwo BitUtil.ceilMultiple BitUtil.floorMultiple BitUtil.roundMultiple
  BitUtil.isMultiple BitUtil.findNSB BitUtil.mask BitUtil.bitfieldRotateRight BitUtil.bitfieldRotateLeft BitUtil.bitfieldFillOne BitUtil.bitfieldFillZero
  BitUtil.lowestBitValue BitUtil.highestBitValue BitUtil.powerOfTwoAbove BitUtil.powerOfTwoBelow BitUtil.powerOfTwoNearest
  BitUtil.f_ceilMultiple BitUtil.f_floorMultiple BitUtil.f_roundMultiple BitUtil.pow_int BitUtil.pow_uint BitUtil.sqrt_int BitUtil.sqrt_uint BitUtil.mod_int BitUtil.mod_uint
  BitUtil.factorial BitUtil.nlz
  Ulp.nextafter Ulp.nextFloat Ulp.prevFloat Ulp.nextFloatN Ulp.prevFloatN Ulp.floatDistance Ulp.equalULP_scalar Ulp.equalULP_vec
  Pack.pack_word Pack.unpack_word Pack.pack_ints Pack.unpack_ints Pack.packF2x11_1x10 Pack.unpackF2x11_1x10
  Pack.fmt_unorm2x16 Pack.fmt_snorm2x16 Pack.fmt_unorm4x8 Pack.fmt_snorm4x8 Pack.fmt_unorm1x8 Pack.fmt_unorm2x8 Pack.fmt_snorm1x8 Pack.fmt_snorm2x8 Pack.fmt_unorm1x16 Pack.fmt_unorm4x16
  Pack.fmt_snorm1x16 Pack.fmt_snorm4x16 Pack.fmt_snorm3x10_1x2 Pack.fmt_unorm3x10_1x2 Pack.fmt_unorm2x4 Pack.fmt_unorm4x4 Pack.fmt_unorm1x5_1x6_1x5 Pack.fmt_unorm3x5_1x1 Pack.fmt_unorm2x3_1x2
  Pack.fmt_tunorm8 Pack.fmt_tunorm16 Pack.fmt_tsnorm8 Pack.fmt_tsnorm16
  Common.ratio_of_bits Common.roundEven Common.nearest_even Common.iround.
