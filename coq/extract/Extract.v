(* Extract.v -- extraction of the hand-written models to OCaml for the correspondence check (tools/corr).
   Only ExtrOcamlBasic is used: bool, option, unit, list, prod, sumbool are mapped to OCaml's; Z/positive/N/nat stay the
   extracted Coq datatypes; there is no Extract Constant. *)
Require Extraction.
Require Import ExtrOcamlBasic.
From GLMM Require Half IntFn.
Extraction Language OCaml.
Extraction "models.ml" Half.toFloat32 Half.toFloat16 Half.packHalf2x16 Half.unpackHalf2x16 Half.packHalf4x16 Half.unpackHalf4x16 Half.packHalfL Half.unpackHalfL
  IntFn.norm IntFn.umod IntFn.bitfieldReverse IntFn.bitCount IntFn.findLSB IntFn.findMSB IntFn.bitfieldExtract IntFn.bitfieldInsert IntFn.uaddCarry IntFn.usubBorrow IntFn.umulExtended IntFn.imulExtended IntFn.mask_T.
